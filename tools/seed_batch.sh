#!/bin/bash
# usage: [ROUND=3] tools/seed_batch.sh <PROP> <A|B> <checks,comma,separated>   (seeded changes under /tmp/seed<ROUND>/<PROP>/out/<X>)
cd "$(dirname "$0")/.."
prop="$1"; x="$2"; checks="${3:-$1}"; r="${ROUND:-2}"
python3 tools/seed_eval.py /tmp/seed$r/$prop/out/$x $prop $prop-r$r-$x --checks $checks > /tmp/seedeval-$prop-$x.log 2>&1
python3 - "$prop-r$r-$x" <<'P'
import json,sys
m=json.load(open(f'/verif/seeded/{sys.argv[1]}/meta.json'))
print(sys.argv[1], 'demo', m.get('demo_clean_exit'), m.get('demo_patched_exit'), '|', ' '.join(f"{k}:{v['verdict']}" for k,v in (m.get('checks') or {}).items()))
for k,v in (m.get('checks') or {}).items():
    for w in v['what'][:2]+v['harness_errors'][:2]: print('    ',k,w[:260])
P
