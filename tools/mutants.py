#!/usr/bin/env python3
"""Self-test: apply single-site changes to a scratch worktree of the repository and run a check
against it (GBIGSMILES_REPO).  Not part of any claim; this is how bounds and oracles are tuned.

  tools/mutants.py list
  tools/mutants.py run <CHECK> [mutant names...] [--tier quick]
"""
import json
import os
import shutil
import subprocess
import sys
import time

HERE = os.path.dirname(os.path.dirname(os.path.abspath(__file__)))

# name, file, old, new, checks expected to report it ([] = semantics preserving: must stay silent)
M = [
    ("c07-ge", "stochastic.py", "                    > target_mol_weight", "                    >= target_mol_weight", ["C07"]),
    ("c07-no-start", "stochastic.py", "rdDescriptors.HeavyAtomMolWt(my_mol.mol) - starting_mol_weight", "rdDescriptors.HeavyAtomMolWt(my_mol.mol)", ["C07"]),
    ("c07-capped-mass", "stochastic.py", "rdDescriptors.HeavyAtomMolWt(my_mol.mol) - starting_mol_weight", "rdDescriptors.HeavyAtomMolWt(finalized_my_mol.mol) - starting_mol_weight", ["C07"]),
    ("c08-no-equal-trick", "core.py", "        weights += 1\n", "        pass\n", ["C08", "C06"]),
    ("c08-ignore-weights", "core.py", "        weights.append(bond_descriptors[i].weight)", "        weights.append(1.0)", ["C08"]),
    ("c08-sqrt-weights", "core.py", "    weights /= np.sum(weights)\n", "    weights = weights * weights\n    weights /= np.sum(weights)\n", ["C08"]),
    ("c08-transitions-reversed", "stochastic.py", "prob = starting_bond.transitions / starting_bond.weight", "prob = starting_bond.transitions[::-1] / starting_bond.weight", ["C08"]),
    ("c08-no-terminal-transfer", "stochastic.py", "                prefix.bond_descriptors[0].transitions = self.left_terminal.transitions\n", "", ["C08"]),
    ("c08-no-terminal-weight", "stochastic.py", "                prefix.bond_descriptors[0].weight = self.left_terminal.weight\n", "", ["C08"]),
    ("c08-cap-any-endgroup", "stochastic.py", "connecting_bond_idx = choose_compatible_weight(self.end_bonds, starting_bond, rng)", "connecting_bond_idx = choose_compatible_weight(self.end_bonds, None, rng)", ["C08", "C06", "C04"]),
    ("c08-equiv-equal-test", "core.py", "np.all(weights == weights[0])", "np.all(weights[0] == weights)", []),
    ("c04-atom-shift", "mol_gen.py", "            bd.atom_bonding_to += current_atom_number\n", "            bd.atom_bonding_to += current_atom_number - 1 if len(other_bond_descriptors) > 2 else current_atom_number\n", ["C04", "C05"]),
    ("c04-no-compat-check", "mol_gen.py", "        if not other_bond_descriptors[other_bond_idx].is_compatible(\n            self.bond_descriptors[self_bond_idx]\n        ):", "        if False:", []),
    ("c04-keep-used-descriptor", "mol_gen.py", "        del other_bond_descriptors[other_bond_idx]\n", "        if len(other_bond_descriptors) != 3:\n            del other_bond_descriptors[other_bond_idx]\n", ["C04", "C06"]),
    ("c06-no-terminal-reserve", "stochastic.py", "                del my_mol.bond_descriptors[terminal_bond_idx]\n", "                pass\n", ["C06"]),
    ("c06-skip-last-cap", "stochastic.py", "            while len(my_mol.bond_descriptors) > 0:\n                starting_bond_idx = choose_compatible_weight(my_mol.bond_descriptors, None, rng)", "            while len(my_mol.bond_descriptors) > (1 if len(my_mol.bond_descriptors) > 3 else 0):\n                starting_bond_idx = choose_compatible_weight(my_mol.bond_descriptors, None, rng)", ["C06"]),
    ("c05-bond-single", "mol_gen.py", "            self.bond_descriptors[self_bond_idx].bond_type,\n        )\n        self.graph = nx.disjoint_union", "            Chem.BondType.SINGLE,\n        )\n        self.graph = nx.disjoint_union", []),
    ("c03-dollar-bonds-angle", "bond.py", '        if self.descriptor == "$" and other.descriptor == "$":\n            return True', '        if self.descriptor == "$" and other.descriptor in ("$", "<"):\n            return True', ["C03"]),
    ("c03-id-above-9", "bond.py", "        if self.descriptor_id != other.descriptor_id:", '        if self.descriptor_id != other.descriptor_id and (self.descriptor_id == "" or other.descriptor_id == "" or self.descriptor_id < 10):', ["C03"]),
]


def apply(wt, fname, old, new):
    p = os.path.join(wt, "src", "gbigsmiles", fname)
    s = open(p).read()
    if s.count(old) != 1:
        raise SystemExit(f"mutant site not unique/found in {fname}: {old[:50]!r} ({s.count(old)})")
    open(p, "w").write(s.replace(old, new))


def make_worktree(name):
    wt = f"/tmp/mut-{name}"
    subprocess.run(["git", "-C", "/repo", "worktree", "remove", "--force", wt], capture_output=True)
    shutil.rmtree(wt, ignore_errors=True)
    subprocess.run(["git", "-C", "/repo", "worktree", "add", "-q", "--detach", wt, "HEAD"], check=True, capture_output=True)
    shutil.copy("/repo/src/gbigsmiles/_version.py", os.path.join(wt, "src", "gbigsmiles", "_version.py"))
    return wt


def remove_worktree(wt):
    subprocess.run(["git", "-C", "/repo", "worktree", "remove", "--force", wt], capture_output=True)
    shutil.rmtree(wt, ignore_errors=True)


def run(check, names, tier="quick", only=None):
    rows = []
    for (name, fname, old, new, exp) in M:
        if names and name not in names:
            continue
        if not names and check not in exp and exp:
            continue
        wt = make_worktree(name)
        try:
            apply(wt, fname, old, new)
            env = dict(os.environ, GBIGSMILES_REPO=wt, VERIF_SCRATCH_OUT=f"/tmp/mut-out-{name}")
            t0 = time.time()
            cmd = [os.path.join(HERE, "vf"), "check", check, "--tier", tier]
            if only:
                cmd += ["--only", only]
            r = subprocess.run(cmd, env=env, capture_output=True, text=True)
            dt = time.time() - t0
            viol = [l for l in r.stdout.splitlines() if l.startswith("VIOLATION")]
            what = [l.strip() for l in r.stdout.splitlines() if l.strip().startswith("what:")]
            herr = [l for l in r.stdout.splitlines() if l.startswith("HARNESS-ERROR")]
            expected = check in exp
            verdict = "caught" if r.returncode == 1 else ("silent" if r.returncode == 0 else f"exit{r.returncode}")
            ok = (verdict == "caught") == expected and r.returncode in (0, 1)
            rows.append((name, check, verdict, "OK" if ok else "UNEXPECTED", round(dt), (what[:1] or herr[:1] or [""])[0][:160]))
            print(rows[-1], flush=True)
        finally:
            remove_worktree(wt)
            shutil.rmtree(f"/tmp/mut-out-{name}", ignore_errors=True)
    return rows


if __name__ == "__main__":
    if sys.argv[1] == "list":
        for m in M:
            print(m[0], m[1], m[4])
    elif sys.argv[1] == "run":
        args = [a for a in sys.argv[2:] if not a.startswith("--")]
        tier = "quick"
        only = None
        for i, a in enumerate(sys.argv):
            if a == "--tier":
                tier = sys.argv[i + 1]
            if a == "--only":
                only = sys.argv[i + 1]
        args = [a for a in args if a not in (tier, only)]
        rows = run(args[0], args[1:], tier, only)
        bad = [r for r in rows if r[3] != "OK"]
        print(f"{len(rows)} mutants, {len(bad)} unexpected")
