#!/usr/bin/env python3
"""Self-test: apply single-site changes to a scratch worktree of the repository and run a check
against it (GBIGSMILES_REPO).  Not part of any claim; this is how bounds and oracles are tuned.

  tools/mutants.py list
  tools/mutants.py run <CHECK> [mutant names...] [--tier quick]
"""
import json
import os
import shutil
import subprocess
import sys
import time

HERE = os.path.dirname(os.path.dirname(os.path.abspath(__file__)))

# name, file, old, new, checks expected to report it ([] = semantics preserving: must stay silent)
M = [
    ("c07-ge", "stochastic.py", "                    > target_mol_weight", "                    >= target_mol_weight", ["C07"]),
    ("c07-no-start", "stochastic.py", "rdDescriptors.HeavyAtomMolWt(my_mol.mol) - starting_mol_weight", "rdDescriptors.HeavyAtomMolWt(my_mol.mol)", ["C07"]),
    ("c07-capped-mass", "stochastic.py", "rdDescriptors.HeavyAtomMolWt(my_mol.mol) - starting_mol_weight", "rdDescriptors.HeavyAtomMolWt(finalized_my_mol.mol) - starting_mol_weight", ["C07"]),
    ("c08-no-equal-trick", "core.py", "        weights += 1\n", "        pass\n", ["C08", "C06"]),
    ("c08-ignore-weights", "core.py", "        weights.append(bond_descriptors[i].weight)", "        weights.append(1.0)", ["C08"]),
    ("c08-sqrt-weights", "core.py", "    weights /= np.sum(weights)\n", "    weights = weights * weights\n    weights /= np.sum(weights)\n", ["C08"]),
    ("c08-transitions-reversed", "stochastic.py", "prob = starting_bond.transitions / starting_bond.weight", "prob = starting_bond.transitions[::-1] / starting_bond.weight", ["C08"]),
    ("c08-no-terminal-transfer", "stochastic.py", "                prefix.bond_descriptors[0].transitions = self.left_terminal.transitions\n", "", ["C08"]),
    ("c08-no-terminal-weight", "stochastic.py", "                prefix.bond_descriptors[0].weight = self.left_terminal.weight\n", "", ["C08"]),
    ("c08-cap-any-endgroup", "stochastic.py", "connecting_bond_idx = choose_compatible_weight(self.end_bonds, starting_bond, rng)", "connecting_bond_idx = choose_compatible_weight(self.end_bonds, None, rng)", ["C08", "C06", "C04"]),
    ("c08-equal-first-last", "core.py", "np.all(weights == weights[0])", "weights[0] == weights[-1]", ["C08"]),
    ("c08-tie-needs-three", "core.py", "if len(compatible_idx) > 0 and np.all(weights == weights[0]):", "if len(compatible_idx) > 0 and np.all(weights == weights[0]) and (len(weights) < 4 or weights[0] == 0):", ["C08"]),
    ("c08-inverse-cdf-correct", "core.py", """    try:
        idx = rng.choice(compatible_idx, p=weights)
    except ValueError as exc:""", """    try:
        if len(compatible_idx) == 0:
            raise ValueError("a cannot be empty unless no samples are taken")
        idx = compatible_idx[min(int(np.searchsorted(np.cumsum(weights), rng.random(), side="right")), len(weights) - 1)]
    except ValueError as exc:""", []),
    ("c08-inverse-cdf-unnormalised", "core.py", """    weights /= np.sum(weights)

    try:
        idx = rng.choice(compatible_idx, p=weights)
    except ValueError as exc:""", """    try:
        if len(compatible_idx) == 0:
            raise ValueError("a cannot be empty unless no samples are taken")
        idx = compatible_idx[min(int(np.searchsorted(np.cumsum(weights), rng.random(), side="right")), len(weights) - 1)]
    except ValueError as exc:""", ["C08"]),
    ("c08-equiv-equal-test", "core.py", "np.all(weights == weights[0])", "np.all(weights[0] == weights)", []),
    ("c04-atom-shift", "mol_gen.py", "            bd.atom_bonding_to += current_atom_number\n", "            bd.atom_bonding_to += current_atom_number - 1 if len(other_bond_descriptors) > 2 else current_atom_number\n", ["C04", "C05"]),
    ("c04-no-compat-check", "mol_gen.py", "        if not other_bond_descriptors[other_bond_idx].is_compatible(\n            self.bond_descriptors[self_bond_idx]\n        ):", "        if False:", []),
    ("c04-keep-used-descriptor", "mol_gen.py", "        del other_bond_descriptors[other_bond_idx]\n", "        if len(other_bond_descriptors) != 3:\n            del other_bond_descriptors[other_bond_idx]\n", ["C04", "C06"]),
    ("c06-no-terminal-reserve", "stochastic.py", "                del my_mol.bond_descriptors[terminal_bond_idx]\n", "                pass\n", ["C06"]),
    ("c06-skip-last-cap", "stochastic.py", "            while len(my_mol.bond_descriptors) > 0:\n                starting_bond_idx = choose_compatible_weight(my_mol.bond_descriptors, None, rng)", "            while len(my_mol.bond_descriptors) > (1 if len(my_mol.bond_descriptors) > 3 else 0):\n                starting_bond_idx = choose_compatible_weight(my_mol.bond_descriptors, None, rng)", ["C06"]),
    ("c05-bond-single", "mol_gen.py", "            self.bond_descriptors[self_bond_idx].bond_type,\n        )\n        self.graph = nx.disjoint_union", "            Chem.BondType.SINGLE,\n        )\n        self.graph = nx.disjoint_union", []),
    ("c16-term-uses-repeat-total", "molecule.py", "graph_bd, element_bd, term_prob=element_bd.weight / end_weight", "graph_bd, element_bd, term_prob=element_bd.weight / (end_weight if repeat_weight == 0 else repeat_weight)", ["C16"]),
    ("c16-trans-unnormalised", "molecule.py", "                            G.add_edge(\n                                graph_bd, other_bd, trans_prob=other_bd.weight / total_weight\n                            )\n\n                if isinstance(element, Stochastic) and isinstance(next_element, SmilesToken):", "                            G.add_edge(\n                                graph_bd, other_bd, trans_prob=other_bd.weight\n                            )\n\n                if isinstance(element, Stochastic) and isinstance(next_element, SmilesToken):", ["C16"]),
    ("c16-skip-compat", "molecule.py", "                    if graph_bd.is_compatible(element_bd) and element_bd.weight > 0:", "                    if element_bd.weight > 0 and (graph_bd.is_compatible(element_bd) or graph_bd.descriptor == element_bd.descriptor == \"<\"):", ["C16"]),
    ("c16-list-wrong-index", "molecule.py", "                    other_bd = element.bond_descriptors[i]\n                    if p >= 0:", "                    other_bd = element.bond_descriptors[len(prob) - 1 - i]\n                    if p >= 0:", ["C16"]),
    ("c13-stop-le", "system.py", "        while generated_total_mass < self.system_mass:", "        while generated_total_mass <= self.system_mass:", ["C13"]),
    ("c13-yield-before-check", "system.py", "            if not mol_gen.fully_generated:\n                raise RuntimeError(\"We expect a fully generated molecule here.\")\n            yield mol_gen", "            yield mol_gen\n            if not mol_gen.fully_generated:\n                raise RuntimeError(\"We expect a fully generated molecule here.\")", ["C13"]),
    ("c13-no-generable-check", "system.py", "        if not self.generable:\n            raise RuntimeError(\"Generable system required\")", "        pass", []),  # equivalent: system_mass / element.generate refuse anyway
    ("c13-mass-not-counted", "system.py", "            generated_total_mass += mol_gen.weight\n", "            generated_total_mass += mol_gen.weight if mol_idx == 0 else 0.5 * mol_gen.weight\n", ["C13"]),
    ("c12-no-sum-check", "system.py", "    if num_fractions == len(molecules) and abs(total_fraction - 100) > 1e-6:", "    if False:", ["C12"]),
    ("c12-remainder-wrong", "system.py", "        weight = 100.0 - total_fraction\n", "        weight = 100.0 - total_fraction if len(molecules) < 3 else 100.0 - total_fraction / 2\n", ["C12"]),
    ("c12-ignore-caller-mass", "system.py", "    if system_molweight:\n        estimated_weights.append(system_molweight)", "    if system_molweight and len(molecules) < 2:\n        estimated_weights.append(system_molweight)", ["C12"]),
    ("c12-setter-factor", "mixture.py", "            self._relative_mass = 100 * self._absolute_mass / mass", "            self._relative_mass = self._absolute_mass / mass", ["C12"]),
    ("c14-uniform-pick", "system.py", "            mol_idx = rng.choice(\n                range(len(relative_fractions)), p=relative_fractions / np.sum(relative_fractions)\n            )\n            mol = self._molecules[mol_idx]\n            mol_gen = mol.generate(rng=rng)\n            generated_total_mass", "            mol_idx = rng.choice(range(len(relative_fractions)))\n            mol = self._molecules[mol_idx]\n            mol_gen = mol.generate(rng=rng)\n            generated_total_mass", ["C14"]),
    ("c20-cache-ignores-param-file", "forcefield_helper.py", "        or nb_filename != _global_nonbonded_itp_file\n", "", ["C20"]),
    ("c20-shortest-rule", "forcefield_helper.py", "                if len(match_rule) > len(final_match):", "                if len(match_rule) < len(final_match):", ["C20"]),
    ("c20-no-completeness", "forcefield_helper.py", "        if len(final_dict) != mol.GetNumAtoms():\n            raise FfAssignmentError(final_dict)\n", "", ["C20"]),
    ("c20-no-refusal", "mol_gen.py", "        if not self.fully_generated:\n            raise RuntimeError(\n                \"Forcefield assignment is only possible for fully generated molecules\"\n            )\n", "", ["C20"]),
    ("c15-accept-unbalanced", "token.py", '        if big_smiles_ext.count("(") != big_smiles_ext.count(")"):', '        if False:', ["C15"]),  # 'C)' is accepted with it (replayed on the plain package): a violation, not an equivalent change
    ("c15-no-two-atom-check", "token.py", '                                if "." not in elementB:\n                                    raise RuntimeError(', '                                if False:\n                                    raise RuntimeError(', ["C15"]),
    ("c15-unknown-dist-default", "distribution.py", '    raise RuntimeError(f"Unknown distribution type {distribution_text}.")', '    return Gauss("gauss(100, 10)")', ["C15"]),
    ("c15-no-translen-check", "stochastic.py", "            if bd.transitions is not None and len(bd.transitions) != len(self.bond_descriptors):", "            if False:", ["C15"]),
    ("c15-negative-generable", "bond.py", "        return self.weight >= 0", "        return True", ["C15"]),
    ("c15-text-after-mixture", "molecule.py", "            if len(end_text) > 0:", "            if False:", ["C15"]),
    ("c15-percent-range", "mixture.py", "            if rel_mass < 0 or rel_mass > 100:", "            if rel_mass < 0:", ["C15"]),
    ("c15-prefix-mismatch", "stochastic.py", "                ) != self.left_terminal.generate_string(False):", "                ) != self.left_terminal.generate_string(False) and False:", ["C15"]),
    ("c15-missing-prefix", "stochastic.py", '                if str(self.left_terminal) != "[]":', '                if False:', ["C15"]),
    ("c15-loop-again", "system.py", "            if end_pos <= 0:", "            if end_pos < 0:", ["C15"]),
    ("c01-bd-weight-int-print", "bond.py", '                string += f"{self.weight}"', '                string += f"{self.weight:.3g}"', ["C01"]),
    ("c01-drop-zero-weight", "bond.py", "        if extension and (self.transitions is not None or self.weight != 1.0):", "        if extension and (self.transitions is not None or (self.weight != 1.0 and self.weight != 0.0)):", ["C01"]),
    ("c01-mixture-print-percent-first", "mixture.py", "            if self.absolute_mass is None:\n                return f\".|{self.relative_mass}%|\"", "            if self.relative_mass is not None:\n                return f\".|{self.relative_mass}%|\"", ["C01"]),
    ("c01-schulz-zimm-swapped-print", "distribution.py", 'return f"|schulz_zimm{self._Mw, self._Mn}|"', 'return f"|schulz_zimm{self._Mn, self._Mw}|"', ["C01"]),
    ("c01-erase-keeps-dist", "stochastic.py", "            string += self.distribution.generate_string(extension)", "            string += self.distribution.generate_string(True)", ["C01"]),
    ("c02-id-two-digits", "bond.py", "            self.descriptor_id = int(id_str.strip())", "            self.descriptor_id = int(id_str.strip()[:2])", ["C02"]),
    ("c02-list-weight-first", "bond.py", "                self.weight = self.transitions.sum()", "                self.weight = self.transitions[0]", ["C02"]),
    ("c02-branch-revert", "token.py", '    for char in string:\n        if char == "(":\n            atom_to_bond.append(atom_to_bond[-1])\n        elif char == ")":\n            atom_to_bond.pop(-1)', '    for _ in range(string.count("(")):\n        atom_to_bond.append(atom_to_bond[-1])\n    for _ in range(string.count(")")):\n        atom_to_bond.pop(-1)', ["C02"]),
    ("c02-gauss-params-swapped", "distribution.py", "        self._mu, self._sigma = make_tuple(self._raw_text[len(\"gauss\") :])", "        self._sigma, self._mu = make_tuple(self._raw_text[len(\"gauss\") :])", ["C02", "C09"]),
    ("c10-no-deepcopy-descriptors", "mol_gen.py", "        self.bond_descriptors = copy.deepcopy(token.bond_descriptors)", "        self.bond_descriptors = list(token.bond_descriptors)", ["C10"]),
    ("c10-mirror-in-place", "molecule.py", "        mirror = copy.deepcopy(self)\n", "        mirror = copy.copy(self)\n", []),  # equivalent: the elements are deep copies anyway
    ("c10-terminal-weight-on-token", "stochastic.py", "                prefix.bond_descriptors[0].weight = self.left_terminal.weight\n", "                prefix.bond_descriptors[0].weight = self.left_terminal.weight\n                self.repeat_bonds[0].weight = self.repeat_bonds[0].weight * 2\n", ["C10", "C08"]),
    ("c10-global-rng-draw", "stochastic.py", "            target_mol_weight = self.distribution.draw_mw(rng)", "            target_mol_weight = self.distribution.draw_mw()", ["C09"]),
    ("c09-uniform-scale", "distribution.py", "stats.uniform(loc=self._low, scale=(self._high - self._low))", "stats.uniform(loc=self._low, scale=self._high)", ["C09"]),
    ("c09-schulz-z", "distribution.py", "        self._z = self._Mn / (self._Mw - self._Mn)", "        self._z = self._Mw / (self._Mw - self._Mn)", ["C09"]),
    ("c09-dispatch-order", "distribution.py", '    if "gauss" in distribution_text:\n        return Gauss(distribution_text)\n    if "uniform" in distribution_text:\n        return Uniform(distribution_text)', '    if "uniform" in distribution_text:\n        return Gauss(distribution_text.replace("uniform", "gauss"))\n    if "gauss" in distribution_text:\n        return Gauss(distribution_text)', ["C09", "C02"]),  # the round trip of C01 stays self-consistent (a Gauss object prints and re-parses as gauss)
    ("c17-partner-own-weight", "stochastic_atom_graph.py", "                                stochastic_weight=other_bd.weight,", "                                stochastic_weight=graph_bd.weight,", ["C17"]),
    ("c17-offset-bug", "stochastic_atom_graph.py", "                        second_atom = other_bd.atom_bonding_to + nested_offset[other_bd_token_idx]\n\n                        if other_bd_token_idx", "                        second_atom = other_bd.atom_bonding_to + nested_offset[graph_bd_token_idx]\n\n                        if other_bd_token_idx", ["C17"]),
    ("c17-end-group-leaves", "stochastic_atom_graph.py", "            if graph_bd_token_idx >= len(element.repeat_tokens):\n                continue\n", "", ["C17"]),
    ("c18-skip-static-fill", "graph_generate.py", "            # do-while advance\n            self._fill_static_edges(new_node)", "            # do-while advance\n            if len(self.graph) < 6:\n                self._fill_static_edges(new_node)", ["C18"]),
    ("c18-wrong-bond-type", "graph_generate.py", '        new_bond_type = edge[1]["bond_type"]\n        new_node_idx = self._add_node(\n            new_stochastic_node,', '        new_bond_type = edge[1]["bond_type"] + 1\n        new_node_idx = self._add_node(\n            new_stochastic_node,', ["C18"]),
    ("c19-skip-last-unit", "mol_prob.py", "                    new_mol._element_weights[new_mol._active_element] += pattern_mw\n                    token_mols.append((new_mol, token))\n\n                for token in match._big.elements[match._active_element].end_tokens:", "                    new_mol._element_weights[new_mol._active_element] += pattern_mw * 0.5\n                    token_mols.append((new_mol, token))\n\n                for token in match._big.elements[match._active_element].end_tokens:", ["C19"]),
    ("c19-prev-not-updated", "mol_prob.py", "        self._previous = old_value\n", "        self._previous = 0.0\n", ["C19"]),
    ("c03-dollar-bonds-angle", "bond.py", '        if self.descriptor == "$" and other.descriptor == "$":\n            return True', '        if self.descriptor == "$" and other.descriptor in ("$", "<"):\n            return True', ["C03"]),
    ("c03-id-above-9", "bond.py", "        if self.descriptor_id != other.descriptor_id:", '        if self.descriptor_id != other.descriptor_id and (self.descriptor_id == "" or other.descriptor_id == "" or self.descriptor_id < 10):', ["C03"]),
]


def apply(wt, fname, old, new):
    p = os.path.join(wt, "src", "gbigsmiles", fname)
    s = open(p).read()
    if s.count(old) != 1:
        raise SystemExit(f"mutant site not unique/found in {fname}: {old[:50]!r} ({s.count(old)})")
    open(p, "w").write(s.replace(old, new))


def make_worktree(name):
    wt = f"/tmp/mut-{name}"
    subprocess.run(["git", "-C", "/repo", "worktree", "remove", "--force", wt], capture_output=True)
    shutil.rmtree(wt, ignore_errors=True)
    subprocess.run(["git", "-C", "/repo", "worktree", "add", "-q", "--detach", wt, "HEAD"], check=True, capture_output=True)
    shutil.copy("/repo/src/gbigsmiles/_version.py", os.path.join(wt, "src", "gbigsmiles", "_version.py"))
    return wt


def remove_worktree(wt):
    subprocess.run(["git", "-C", "/repo", "worktree", "remove", "--force", wt], capture_output=True)
    shutil.rmtree(wt, ignore_errors=True)


def run(check, names, tier="quick", only=None):
    rows = []
    for (name, fname, old, new, exp) in M:
        if names and name not in names:
            continue
        if not names and check not in exp and exp:
            continue
        wt = make_worktree(name)
        try:
            apply(wt, fname, old, new)
            env = dict(os.environ, GBIGSMILES_REPO=wt, VERIF_SCRATCH_OUT=f"/tmp/mut-out-{name}")
            t0 = time.time()
            cmd = [os.path.join(HERE, "vf"), "check", check, "--tier", tier]
            if only:
                cmd += ["--only", only]
            r = subprocess.run(cmd, env=env, capture_output=True, text=True)
            dt = time.time() - t0
            viol = [l for l in r.stdout.splitlines() if l.startswith("VIOLATION")]
            what = [l.strip() for l in r.stdout.splitlines() if l.strip().startswith("what:")]
            herr = [l for l in r.stdout.splitlines() if l.startswith("HARNESS-ERROR")]
            expected = check in exp
            verdict = "caught" if r.returncode == 1 else ("silent" if r.returncode == 0 else f"exit{r.returncode}")
            ok = (verdict == "caught") == expected and r.returncode in (0, 1)
            rows.append((name, check, verdict, "OK" if ok else "UNEXPECTED", round(dt), (what[:1] or herr[:1] or [""])[0][:160]))
            print(rows[-1], flush=True)
        finally:
            remove_worktree(wt)
            shutil.rmtree(f"/tmp/mut-out-{name}", ignore_errors=True)
    return rows


if __name__ == "__main__":
    if sys.argv[1] == "list":
        for m in M:
            print(m[0], m[1], m[4])
    elif sys.argv[1] == "run":
        args = [a for a in sys.argv[2:] if not a.startswith("--")]
        tier = "quick"
        only = None
        for i, a in enumerate(sys.argv):
            if a == "--tier":
                tier = sys.argv[i + 1]
            if a == "--only":
                only = sys.argv[i + 1]
        args = [a for a in args if a not in (tier, only)]
        rows = run(args[0], args[1:], tier, only)
        bad = [r for r in rows if r[3] != "OK"]
        print(f"{len(rows)} mutants, {len(bad)} unexpected")
