#!/usr/bin/env python3
"""Run the repository's test-suite on a seeded change (scratch worktree) and record the result in its meta.json.
   tools/seed_tests.py <name>      (/verif/seeded/<name>/patch.diff)"""
import json, os, shutil, subprocess, sys
name = sys.argv[1]
d = f"/verif/seeded/{name}"
wt = f"/tmp/seedtest-{name}"
subprocess.run(["git", "-C", "/repo", "worktree", "remove", "--force", wt], capture_output=True)
shutil.rmtree(wt, ignore_errors=True)
meta = json.load(open(f"{d}/meta.json"))
base = meta.get("repo_head") or "HEAD"
subprocess.run(["git", "-C", "/repo", "worktree", "add", "-q", "--detach", wt, "HEAD"], check=True, capture_output=True)
shutil.copy("/repo/src/gbigsmiles/_version.py", f"{wt}/src/gbigsmiles/_version.py")
ap = subprocess.run(["git", "-C", wt, "apply", f"{d}/patch.diff"], capture_output=True, text=True)
if ap.returncode:
    meta["tests"] = "patch does not apply to the current /repo HEAD"
    meta["tests_pass"] = None
else:
    env = dict(os.environ, PYTHONPATH=f"{wt}/src", PYTHONDONTWRITEBYTECODE="1")
    r = subprocess.run(["/venv/bin/python", "-m", "pytest", "-q", "-p", "no:cacheprovider", "--timeout=900",
                        "--deselect", "tests/test_distribution.py::test_flory_schulz", "--deselect", "tests/test_distribution.py::test_schulz_zimm"],
                       env=env, cwd=wt, capture_output=True, text=True)
    tail = (r.stdout.strip().splitlines() or ["?"])[-1]
    meta["tests"] = tail
    meta["tests_pass"] = r.returncode == 0
    meta.setdefault("ran", []).append(f"cd <patched worktree> && PYTHONPATH=src /venv/bin/python -m pytest -q (whole suite minus the always-failing test_flory_schulz and the flaky test_schulz_zimm) -> {tail}")
json.dump({"tests": meta["tests"], "tests_pass": meta["tests_pass"], "ran": [r_ for r_ in meta.get("ran", []) if "pytest" in r_][-1:]}, open(f"{d}/tests.json", "w"), indent=1)
subprocess.run(["git", "-C", "/repo", "worktree", "remove", "--force", wt], capture_output=True)
shutil.rmtree(wt, ignore_errors=True)
print(name, meta["tests"])
