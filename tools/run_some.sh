#!/bin/bash
# usage: tools/run_some.sh <tier> <ID>...
cd "$(dirname "$0")/.."
tier="$1"; shift
for id in "$@"; do
  start=$(date +%s)
  out=$(./vf check $id --tier $tier 2>&1)
  code=$?
  end=$(date +%s)
  echo "$id exit=$code $((end-start))s | $(echo "$out" | grep "^\[$id" | cut -c1-200)"
  echo "$out" | grep "^VIOLATION\|^HARNESS\|^NOTE\|what:" | cut -c1-300
done
