#!/usr/bin/env python3
"""Regenerate MANIFEST.json from the table below (keeps it valid and consistent)."""
import json
import os

HERE = os.path.dirname(os.path.dirname(os.path.abspath(__file__)))
TECH = ("bounded symbolic execution of the real Python functions with z3 (symx proxy values on CPython, "
        "solver-decided branches, one SMT query per assertion and path), counter-examples replayed on the plain package")

CHECKS = {
    "C03": dict(
        text="For every descriptor state the constructor can produce (symbol, ANY integer id, five bond orders, any weight / weight list) "
             "and for symbolic descriptor texts, z3 proves on every execution path of the real is_compatible that the result equals the "
             "conjugation rule, is symmetric and does not depend on weights; the candidate filter returns exactly the admitted indices. "
             "The decision structure is finite and fully explored; ids and weights are unbounded solver variables.",
        note="Trusted: z3, CPython, the proxy classes of /verif/symx; floats as reals (weights never reach a comparison here). "
             "Bounds: prefix <= 2 characters, id <= 2 digits at text level (unbounded at state level), filter lists <= 2 (quick) / 3 (thorough).",
        ref="DESIGN.md §4 C03"),
}

NOT_YET = "check not built yet (work in progress in this round)"
NOT_APPLICABLE = {
    "C11": "normalisation, moments and sampler laws of the six distributions are statements of real analysis over exp/log/Gamma and of scipy's "
           "compiled numerical inversion; no SMT theory decides them and the C boundary cannot be executed symbolically (DESIGN.md §5.1); "
           "the decidable fragments are claimed under C01, C09, C15, C19",
}


def main():
    props = [json.loads(l)["id"] for l in open(os.path.join(HERE, "properties.jsonl"))]
    checks = []
    for pid in props:
        if pid in CHECKS:
            c = CHECKS[pid]
            checks.append({
                "property_id": pid,
                "quick_cmd": f"./vf check {pid} --tier quick",
                "thorough_cmd": f"./vf check {pid} --tier thorough",
                "evidence_file": f"/verif/evidence/{pid}.json",
                "replay_cmd_template": "./vf replay {path}",
                "engine": "symx",
                "level_claimed": {"category": "other", "text": c["text"], "design_ref": c["ref"]},
                "level_note": c["note"],
                "technique": c.get("technique", TECH),
            })
    na = []
    for pid in props:
        if pid not in CHECKS:
            na.append({"property_id": pid, "reason": NOT_APPLICABLE.get(pid, NOT_YET)})
    m = {
        "version": 1,
        "setup_cmd": "./vf setup",
        "hooks": {
            "guard": "GBIGSMILES_VERIF",
            "enable": "no source hooks: all instrumentation happens inside the checking process (import-time AST rewrite of /repo/src/gbigsmiles, "
                      "re-bound module attributes, wrapped methods); the guard variable is reserved and unused",
            "baseline_off_cmd": "cd /repo && /venv/bin/python -m pytest -ra -q -p no:cacheprovider --timeout=900 --continue-on-collection-errors",
            "source_commits": [],
            "add_only": True,
        },
        "engines": [{
            "name": "symx", "path": "/verif/symx", "serves_properties": sorted(CHECKS),
            "kind_free_text": "symbolic execution of the repository's Python functions over z3 (proxy values + import-time AST rewrite), "
                              "DFS over solver-decided branches with replay-from-start, per-path SMT obligations, replay of counter-examples on the plain package",
        }],
        "checks": checks,
        "not_applicable": na,
        "notes": "Exit codes: 0 = held on everything explored (KNOWN-FINDING lines for listed findings), 1 = VIOLATION (reproduced on the plain package), "
                 "3 = harness error (never a verdict). GBIGSMILES_REPO selects another checkout than /repo (used for self-tests only).",
    }
    with open(os.path.join(HERE, "MANIFEST.json"), "w") as fh:
        json.dump(m, fh, indent=1)
    print("checks:", [c["property_id"] for c in checks], "not_applicable:", len(na))


if __name__ == "__main__":
    main()
