#!/usr/bin/env python3
"""Regenerate MANIFEST.json from the table below (keeps it valid and consistent)."""
import json
import os

HERE = os.path.dirname(os.path.dirname(os.path.abspath(__file__)))
TECH = ("bounded symbolic execution of the real Python functions with z3 (symx proxy values on CPython, "
        "solver-decided branches, one SMT query per assertion and path; a sample of the queries re-discharged by z3 4.8.12 and cvc5), "
        "counter-examples replayed on the plain package")

CHECKS = {
    "C03": dict(
        text="For every descriptor state the constructor can produce (symbol, ANY integer id, five bond orders, any weight / weight list) "
             "and for symbolic descriptor texts, z3 proves on every execution path of the real is_compatible that the result equals the "
             "conjugation rule, is symmetric and does not depend on weights; the candidate filter returns exactly the admitted indices. "
             "The decision structure is finite and fully explored; ids and weights are unbounded solver variables.",
        note="Trusted: z3, CPython, the proxy classes of /verif/symx; floats as reals (weights never reach a comparison here). "
             "Bounds: prefix <= 2 characters, id <= 2 digits at text level (unbounded at state level), filter lists <= 2 (quick) / 4 (thorough).",
        ref="DESIGN.md §4 C03"),
}

def _gen(pid):
    from importlib import import_module
    return None


for _pid, _txt, _note in [
    ("C01", "Parse -> print -> parse on symbolic texts: fully symbolic short descriptor / mixture texts, distribution texts with numeral parameters, and templates of every skeleton / test string whose numbers are numeral atoms with symbolic values, with one whitespace or number-format variant at a time (integer literal, trailing dot, positional decimal, exponent notation); per path z3 proves acceptance of the print, fixed point, equal attribute trees, exact erasure of |...| segments, and that the parsed and the re-parsed object generate the same molecule from one scripted stream.",
     "Bounds: descriptor text <= 6 (8) symbolic characters, mixture body <= 4 (5), one variant at a time, token chemistry concrete. Trusted: CPython's number printing contract (float(repr(x)) == x; printed numbers contain no scanner characters), RDKit for atoms."),
    ("C02", "SmilesToken on symbolic slot sequences (K <= 7 quick / 9 thorough; 1-3 descriptors at fixed positions, all other slots symbolic over 'C ( ) = #', SMILES validity assumed as a z3 precondition): per path z3 proves binding atom and bond order equal an independent OpenSMILES reference binder (cross-checked against RDKit with dummy atoms), plus descriptor-level (symbol, id digits, weights, list totals), structure-level templates (terminals, tokens, weights, family and parameter order) and the mixture specification (absolute mass / percentage in every spelling of the number, 0 % included, through Mixture, Molecule and System), the atom of the descriptor the parser adds to a prefix / suffix that ends in a closed branch, and history-free parsing (a list '|1 2|' and its scalar twin '|12|' parsed one after the other).",
     "Bounds: K, ring closures and bracket / two-letter atoms only through concrete templates. Trusted: RDKit as the meaning of SMILES, numeral-atom contract."),
    ("C04", "Shared gen-driver: real Molecule.generate with symbolic weights, symbolic drawn targets and all rng.choice outcomes on the skeleton list of checks/gendrive.py (61 small molecules, some also generated after a near twin of them in the same process; N = 2 units per block quick, 3 thorough); every attach_other call is checked for range, openness, conjugation rule (harness formula), bonded atoms and bond order, list bookkeeping; final inter-residue bonds = recorded attachments. The reference reading of every token is its text as written (RDKit with dummy atoms), never the text the code prints back (explicit hydrogens folded as RDKit does at generation level). Plus MolGen.attach_other used directly: one fragment object attached to two cores.",
     "Bounds: skeleton list, N units per block, weights in {0} u [1e-6,1e6]. Stubs: draw_mw (nondeterministic real), embed/UFF (zero conformer), numpy shim, Generator.choice contract. Chemistry assertions are concrete per path; the solver decides which paths exist."),
    ("C05", "Same runs as C04: per finished path residues partition the atoms, are atom-by-atom identical to the token text parsed independently (RDKit with dummy atoms), form a tree with residues-1 bonds, sanitise, carry the written hydrogen counts, masses add up, and the SMILES accessor denotes the molecule of the mol accessor.", "As C04."),
    ("C06", "Same runs as C04 on the closed skeletons: no path ends in an exception, unwinding bound holds, result fully generated, each descriptor bonded exactly once, element order, once-only tokens, >= 1 repeat unit per block, exactly one bond between consecutive elements, end groups are leaves; on every skeleton (also ill-posed ones) a molecule handed back without open descriptor contains every written element.", "As C04; well-posedness is by construction of the skeleton list."),
    ("C07", "Same runs as C04 with the drawn target a solver variable: z3 proves per block added_{n-1} <= t < added_n at the exact boundary (so > vs >= is decided), at least one unit, one draw per block, the compared mass is the mass this block added (token texts), growth ends without a comparison only when no open descriptor is left, unwinding assertion n <= N. If the code does not measure through HeavyAtomMolWt the stop rule is judged on the masses of the written tokens (1e-6 band).", "As C04."),
    ("C08", "Same runs as C04: at every rng.choice call the candidate set equals the rule-admitted descriptors for that call site and the probability vector is proved equal to the reference law (w/sum w, uniform for equal weights incl. all zero, t_j/sum t for listed transitions over all descriptors) as polynomial identities; sums to 1; no NaN; left terminal's weight/list transferred to the prefix's descriptor; a descriptor with a list never gets its partner by weight and the list followed is the one WRITTEN on it; the law is proved up to the replay tolerance (1e-9) where normal forms differ, 'an option of weight zero has probability exactly zero' exactly. In isolation: choose_compatible_weight on k <= 3 (5) descriptors in ARBITRARY constructor-producible states and an arbitrary open descriptor: options = rule-admitted descriptors, p_i = w_i / sum w (uniform on ties, all zero included), returned index = the generator's pick, weights untouched; an implementation that samples from one uniform draw is judged by the measure of the draws per index (two-copy query) and by 'an option of probability zero is never returned, whatever the draw' (boundary draws included).", "As C04; long-run frequencies are outside; k <= 3 (5) in isolation."),
    ("C12", "Real Mixture constructor / setters / _estimate_system_molecular_weight on all kind assignments of k <= 4 (5) components with symbolic numbers parsed from symbolic text: soundness (relations exact, totals within 10x the code's tolerance, written values kept, unique solution of the linear specification), completeness for the documented determined forms, print/parse keeps masses; systems built in turn from one component text are each resolved from their own inputs.", "Bounds: k, value ranges, tolerance band excluded. Component objects are stand-ins for the estimate function; System text round trip on concrete chemistry."),
    ("C13", "Real System.generator / System.generate with symbolic system mass, percentages, per-molecule masses and completeness flags (component generate stubbed), all picks: provenance, completeness, stop exactly at the system mass, refusal of non-generable systems, generability checked before generating; the same System object iterated again after a partial, a complete iteration or a single generation, or with a single generation interleaved, obeys the stop rule on its own molecules; with the components' real generate (methane / ethane, [H][H] / methane) the booked mass is the heavy-atom mass.", "Bounds: <= 3 (4) yields, <= 2 (3) components; Molecule.generate stubbed (covered by C04-C08)."),
    ("C14", "The pick vector handed to rng.choice is captured as terms in the declared fractions; with symbolic mean masses z3 decides the renewal-reward identity p_i m_i sum f = f_i sum p_j m_j per component. The pinned tree violates it (pick probability = mass fraction): listed as known finding, any other law is a VIOLATION. A pick computed from a uniform draw instead of rng.choice is judged by the measure of the draws per component (two-copy query over the path condition, 10-point margin).", "Assumes the renewal-reward limit theorem; finite-size effects and dependence between successive picks (needs ensembles larger than the bound) outside."),
    ("C09", "Reduced claim (plumbing): distribution parameters as numeral atoms with symbolic values inside symbolic text run through the real get_distribution / constructors / draw_mw / prob_mw with scipy's objects replaced by recorders; z3 proves parameter order and meaning per family (gauss loc/scale, uniform loc/scale=high-low, poisson mu, flory_schulz a, schulz_zimm Mn and z(Mw-Mn)=Mn, log_normal M/D), the caller's generator reaches rvs, dispatch by name, one draw per block, every parameter in every spelling of the number, the object parsed from the canonical text samples with the same parameters; telescoping of interval probabilities for an uninterpreted monotone CDF.",
     "Outside (stated): that scipy samples the law it is parameterised with and that the hand-written pmf/pdf are the named laws (C11); ensemble frequencies are not claimed."),
    ("C10", "Self-composition: run A (fresh instance, symbolic stream: all picks, symbolic targets, symbolic weights) vs run B (another instance after a history of operations on it or on a third instance: generate, prints, graphs, mirror, accessors, re-parse, global-generator draws, repeating run A's own stream on the instance, generating the mirror) with the same stream: same options and probability vectors at every decision, same SMILES and mass; structural digests of every attribute the parsed objects had at parse time (aliasing included), printed forms, generability, BigSMILESbase.bond_descriptors and the global generator's state unchanged after every operation.",
     "Bounds: 5 (7) skeletons at N = 1 (2), history length 1 (2) between the generations; plus the case of a static initiator whose generated result is used as a prefix elsewhere. draw_mw / embed stubbed. Process-level effects and System.generator outside."),
    ("C15", "One harness per rule of the statement; the breaking operator (position, offending characters, offending numbers) is symbolic and every path must end in an exception: unbalanced branches (validity precondition with balance negated), unclosed bracket, descriptor between two atoms, unknown descriptor symbol, distribution name with one character changed / dropped, transition list of wrong length, negative weight (not generable, generate refuses), text after a mixture specifier, percentage outside 0-100 (any real, every spelling of the number), generating the non-generable, missing / mismatching prefix (also for an empty left terminal), one bracket or brace of a well-formed object missing; termination by an unwinding assertion on every while loop of the text layer for fully symbolic texts of length <= 4 (5).",
     "Any exception counts as rejection. One violated rule at a time. Termination texts over the structural alphabet 'C{}[]$.|;,5 '. Known finding: System.generate does not consult System.generable."),
    ("C17", "Real StochasticAtomGraph.generate with symbolic weights compared with a graph built independently from the parsed structure and RDKit's reading of each token (descriptors as dummy atoms): nodes (element, charge, aromaticity), static edges, stochastic / termination / transition edge multisets, weight attributes as z3 terms; a second generate() on the same object gives the same graph, the graph of the mirror taken afterwards is the mirror's; for descriptors with a transition list the recorded deviation (known finding) is a second reference, any other deviation is reported.",
     "Structure is concrete per molecule; only weights are quantified (weak use of the solver, kept because offsets / missing edge classes / wrong weight attributes are realistic changes). Known finding: edges of descriptors with a transition list."),
    ("C18", "Real AtomGraph.generate on Schulz-Zimm skeletons with every rng.choice outcome explored, the draw per (Mw, Mn) key a fresh real and weights symbolic: whole residues (contiguous id blocks mapping onto a token's atoms and internal bonds), inter-residue bonds follow non-static graph edges with their bond order, tree, sanitisation, bounded size, same stream => same molecule, a later generation in the same process consumes the generator like the first.",
     "Bounds: 12 skeletons, 2-3 units per block (one more in the thorough tier). rng threshold 1e-200 for the code's EPSILON = 1e-300. Draw stubbed."),
    ("C19", "Real get_ensemble_prob with each block's CDF an uninterpreted monotone function (fresh real per distinct argument) and symbolic start weights: the returned term is proved equal to prod_b (F_b(n m) - F_b((n-1) m)) for n = 1..2 (3) units per block on 15 skeletons (prefix / end-group start, one / two blocks, connector, adjacent blocks of the same unit with the law summed over the splits, a chlorinated unit under a discrete law, a window narrower than a unit, a locally symmetric substituent, a heavy-isotope unit, all six families' prob_mw plumbing); foreign molecule -> 0; renumbered SMILES -> same term.",
     "Bounds: linear chains of one directed repeat unit, n <= 2 (3), 2-3 renumberings (samples). Known findings: symmetric tokens / symmetric molecules (embedding enumeration)."),
    ("C20", "Decidable core: all histories of <= 2 (3) get_assignment_class calls over {None, A, B}^2 with the reader replaced by a recorder (object returned was built from exactly the requested files); get_type_assignments with a symbolic match relation (4 rules x 2 (3) atoms) and atom permutation (longest rule wins, first among equals, FfAssignmentError with the partial assignment, commutes with numbering); refusal of partially generated molecules; concrete side checks: type masses against the element of each rule; two spellings of one molecule typed on one assigner; typable / isotope-labelled / untypable molecules typed in sequence through MolGen.forcefield_types (total or dedicated error carrying partial assignment and molecule, element masses, second typing equals the first by value, bond_type_id included); a reduced rule file, copies of the bundled files and the defaults used in turn (real files): copies give the defaults' result.",
     "Outside: RDKit's SMARTS semantics, completeness of the bundled rule set. Known finding: opls_420 (thiolate sulfur typed as oxygen) in the bundled data."),
    ("C16", "Real gen_reaction_graph with symbolic weights on the skeleton list plus test strings and mixed-bond-order molecules: node set, per-node sums = 1 or absent for prob / term_prob / trans_prob, every edge value equals the reference law of C08 as a polynomial identity, edge sets = admissible partners; the molecule is unchanged, a second graph and the graph of the mirror taken afterwards are those of their own objects.", "Bounds: molecule list; weights in {0} u [1e-6,1e6]. Known finding: hand-overs whose admissible partners all have weight zero."),
]:
    CHECKS[_pid] = dict(text=_txt, note=_note, ref=f"DESIGN.md §4 {_pid}")

# additions of round 5 (DESIGN.md 9.2 / 9.7b)
for _pid, _more in {
    "C01": " Also: a bond symbol written in front of a token that follows a stochastic object (accepted texts must round-trip), objects without repeat unit, end groups without descriptor, equal uniform bounds; rounding formats are followed both as 'any value within the rounding error' and with pinned long mantissas printed by CPython.",
    "C02": " Bracket atoms keep the isotope, hydrogen count and chirality mark they are written with; equal uniform bounds come back as written; str.strip with numeral-dependent character sets is followed with set semantics.",
    "C03": " Descriptor states include negative weights and negative list entries.",
    "C04": " The new unit is attached through the descriptor object that was picked (two descriptors written alike on different atoms); the mass accessor is read before every attachment.",
    "C09": " Constructor guards written with numpy predicates on the parameters are followed symbolically (isclose forks into clearly-close / boundary band / clearly-far).",
    "C10": " A generation that ends in an exception leaves the parsed object and its generability unchanged.",
    "C13": " History peek-then-continue (next(), then a for loop over the same iterator); a polymer component generated by its real code inside the ensemble equals what it generates on its own for the same drawn target, for every system mass in [1, 200].",
    "C14": " The same System object used twice (generator / single generation in every order) follows the same pick law both times.",
    "C15": " A negative entry in a transition list with a non-negative sum: generation refuses.",
    "C18": " A generation still drawing after 400 random decisions (graphs are bounded by 60 atoms) is reported as non-terminating and replayed.",
    "C19": " Two more molecules outside the ensemble per member (a double bond between two residues; the last one-atom token missing) must get probability 0 for every law; a suffix token whose descriptor carries the weight 0; an exception of get_ensemble_prob for a member is a violation.",
    "C20": " Two atom orders of one molecule with fused / hetero-aromatic rings typed through MolGen.forcefield_types get element masses and the same parameter sets (concrete molecules, the solver chooses the pair).",
}.items():
    CHECKS[_pid]["text"] += _more

NOT_YET = "check not built yet (work in progress in this round)"
NOT_APPLICABLE = {
    "C11": "normalisation, moments and sampler laws of the six distributions are statements of real analysis over exp/log/Gamma and of scipy's "
           "compiled numerical inversion; no SMT theory decides them and the C boundary cannot be executed symbolically (DESIGN.md §5.1); "
           "the decidable fragments are claimed under C01, C09, C15, C19",
}


def main():
    props = [json.loads(l)["id"] for l in open(os.path.join(HERE, "properties.jsonl"))]
    checks = []
    for pid in props:
        if pid in CHECKS:
            c = CHECKS[pid]
            checks.append({
                "property_id": pid,
                "quick_cmd": f"./vf check {pid} --tier quick",
                "thorough_cmd": f"./vf check {pid} --tier thorough",
                "evidence_file": f"/verif/evidence/{pid}.json",
                "replay_cmd_template": "./vf replay {path}",
                "engine": "symx",
                "level_claimed": {"category": "other", "text": c["text"], "design_ref": c["ref"]},
                "level_note": c["note"],
                "technique": c.get("technique", TECH),
            })
    na = []
    for pid in props:
        if pid not in CHECKS:
            na.append({"property_id": pid, "reason": NOT_APPLICABLE.get(pid, NOT_YET)})
    m = {
        "version": 1,
        "setup_cmd": "./vf setup",
        "hooks": {
            "guard": "GBIGSMILES_VERIF",
            "enable": "no source hooks: all instrumentation happens inside the checking process (import-time AST rewrite of /repo/src/gbigsmiles, "
                      "re-bound module attributes, wrapped methods); the guard variable is reserved and unused",
            "baseline_off_cmd": "cd /repo && /venv/bin/python -m pytest -ra -q -p no:cacheprovider --timeout=900 --continue-on-collection-errors",
            "source_commits": [],
            "add_only": True,
        },
        "engines": [{
            "name": "symx", "path": "/verif/symx", "serves_properties": sorted(CHECKS),
            "kind_free_text": "symbolic execution of the repository's Python functions over z3 (proxy values + import-time AST rewrite), "
                              "DFS over solver-decided branches with replay-from-start, per-path SMT obligations, second-solver cross-check (z3 4.8.12, cvc5) of a sample "
                              "of the assertion queries, replay of counter-examples on the plain package",
        }],
        "checks": checks,
        "not_applicable": na,
        "notes": "Exit codes: 0 = held on everything explored (KNOWN-FINDING lines for listed findings), 1 = VIOLATION (reproduced on the plain package), "
                 "3 = harness error (never a verdict). GBIGSMILES_REPO selects another checkout than /repo (used for self-tests only).",
    }
    with open(os.path.join(HERE, "MANIFEST.json"), "w") as fh:
        json.dump(m, fh, indent=1)
    print("checks:", [c["property_id"] for c in checks], "not_applicable:", len(na))


if __name__ == "__main__":
    main()
