#!/usr/bin/env python3
"""Print the markdown table of seeded changes (from /verif/seeded/*/meta.json) for DESIGN.md 9.6."""
import json, os, glob
NOTES = {
 "C10-agent-1": "missed by the first quick tier (skeleton with a left-terminal list was thorough-only): moved into the quick list",
 "C10-agent-2": "C10 first could not see it (draw stubbed): obligation 'every draw uses the supplied generator, once per block' added; C07 and C09 also report it",
 "C06-agent-2": "missed first: skeleton 'list-handover-to-shorter-table' added (a block whose chain-end descriptor carries a list hands over to a block with a shorter table)",
 "C08-agent-1": "same change as C06-agent-2; caught through the block-start obligation (terminal weight / list transfer)",
 "C04-agent-1": "C04 first silent (its oracle used the code's own atom indices): obligation 'the bond joins the atoms the descriptors are written on' (token text read by RDKit) and skeleton 'same-fragment-two-orders' added; the observers were made signature-agnostic",
 "C04-agent-2": "missed first: ill-posed skeleton 'terminal-list-incompatible-entry' added (exceptions are acceptable there, a bond between incompatible descriptors is not)",
 "C02-agent-1": "missed first (only the number of atoms was compared): every recorded atom is now compared with the element / charge RDKit reads at that position",
 "C05-agent-1": "first a harness error: the harness-side look-ahead sanitised the molecule earlier than the code and raised first; the look-ahead never raises now. Skeleton 'isotope-labelled-unit' added; C05 reports a sanitisation failure during generation",
 "C05-agent-2": "skeleton 'descriptor-after-branch' added; also reported by C02",
 "C15-agent-1": "missed first: the distribution-name operator only replaced / dropped a character; inserting one ('gaussz') added",
 "C16-agent-1": "missed first: molecules with descriptors of equal symbol but different bond order added to C16's list (graph construction needs no generability)",
 "C16-agent-2": "missed first: C16 now proves that building the graph leaves every weight untouched and that a second graph is the same",
 "C12-agent-2": "could not be kept: the patch no longer applies after the repair 'percentages above 100 %' (same lines); the behaviour it seeds is rejected earlier now",
 "C20-agent-1": "first a vacuity error (the matcher stub has no MolToSmiles): case 'real-typing-history' added (two spellings of one molecule typed on one assigner with the real RDKit and bundled files)",
 "C20-agent-2": "missed first: refusal case extended with zero-weight open descriptors",
 "C14-agent-1": "missed first: the numpy shim had no integer arrays; assignment into an integer array now truncates as numpy does",
 "C14-agent-2": "missed first: declared shares of exactly 0 % admitted; obligation 'the pick is over all declared components' got a replay",
 "C17-agent-1": "missed first: a second generate() on the same object must give the same graph",
 "C17-agent-2": "missed first: molecules with two id families in directly adjacent stochastic objects added",
 "C18-agent-1": "missed first: skeleton with a double bond between the two descriptor atoms added",
 "C18-agent-2": "first a harness error (numpy.random.choice not modelled): legacy global numpy.random functions are routed to a hook generator whose use is an obligation failure",
 "C19-agent-1": "first a harness error (np.all on numbers): numeric truthiness modelled; skeleton with a zero-weight start end group and a start law summed over the starts that yield the molecule",
 "C19-agent-2": "skeleton whose prefix fragment occurs twice added (the renumbering obligation on the existing skeletons also reports it)",
 "C01-agent-2": "not visible to C01 (no generation between parse and print there); reported by C10 'generate changed the parsed object'",
 "C09-agent-2": "a change of System.generator's stop rule: reported by C13 (C09 claims the plumbing only)",
 "C13-agent-2": "",
 "C08-agent-2": "first exit 3 (numpy used in a module where it was not shimmed): the shim is now bound in every module of the package and models fancy indexing",
 # ---- round 2
 "C01-r2-A": "first exit 3 (a regular expression met a symbolic text): `re` is a proxy that forces symbolic text concrete - numeral atoms fork over the printing classes of repr(float) (plain / exponent) - and numbers are additionally written as plain decimals and in exponent notation",
 "C01-r2-B": "not visible to C01 (no generation between parse and print); reported by C10 'generate changed the parsed object'",
 "C02-r2-A": "",
 "C02-r2-B": "missed by C02 first (it had no obligation on the mixture specification): case 'mixture-specification' added (absolute mass / percentage in every spelling, through Mixture, Molecule and System)",
 "C03-r2-A": "first a vacuity error (descriptor states were built with __new__ and lacked the new attribute): states are built by the real constructor; case 'state-triple/history' added (the same objects are asked about several partners in sequence)",
 "C03-r2-B": "",
 "C04-r2-A": "missed by C04 first: skeleton 'id-zero-and-idless' added; C03 reports it independently",
 "C04-r2-B": "C15 first could not replay its candidate (prefix text missing from the replay file): fixed",
 "C05-r2-A": "missed first: skeletons 'hypervalent-attachment-atoms' and 'phosphonate-endgroups' added",
 "C05-r2-B": "missed first: the reference reading of a token used the text the code prints back; it now uses the text as written. Skeleton 'doubled-sign-charges' added",
 "C06-r2-A": "",
 "C06-r2-B": "missed first: skeleton 'suffix-descriptor-after-branch' added",
 "C07-r2-A": "",
 "C07-r2-B": "missed first: obligation 'growth ends without a comparison only when no open descriptor is left' and skeleton 'zero-weight-chain-end' added",
 "C08-r2-A": "also reported by the new isolated harness of choose_compatible_weight (one of its candidates sits exactly on the tolerance boundary and does not replay)",
 "C08-r2-B": "first a vacuity error (the list pick moved into a helper the oracle did not recognise): list picks are located by content; obligation 'an open descriptor that carries a list gets its partner from the list, never from the weights' added",
 "C09-r2-A": "C07 / C05 first exit 3 (the observer wrapped a module attribute the change removed): observers tolerate that and C07 falls back on the masses of the written tokens; skeleton 'heavy-isotope-unit' added. C09 itself claims the plumbing only",
 "C09-r2-B": "MISSED: a tabulated sampler inside the hand-written flory_schulz law keeps the first parameter it sees. The sampler law is outside C09's reduced claim (scipy objects are replaced by recorders) and belongs to C11 (not applicable)",
 "C10-r2-A": "missed first: operation 'generate-same-stream' (the instance repeats run A's stream before run B) and skeleton 'chain-stopper-unit' added",
 "C10-r2-B": "missed first: case 'static-initiator/result-used-as-prefix' added",
 "C12-r2-A": "missed by the first quick tier (needs four components): quick tier raised to k <= 4",
 "C12-r2-B": "first exit 3 (round() of a symbolic real): modelled exactly (nearest multiple of 10^-n)",
 "C13-r2-A": "missed first: cases 'generator-after-partial / -complete / -single-generate' added (the same System object is iterated again)",
 "C13-r2-B": "C13 stubs the components' generate: reported by C06 through the new obligation 'a molecule returned without open descriptor contains every written element' on skeleton 'list-can-close-before-suffix'",
 "C14-r2-A": "MISSED (exit 3): the pick is re-implemented by inverse-CDF sampling on rng.random(); C14 reads the law off the vector handed to rng.choice. Deciding it needs the measure of the uniform variable per path (not built)",
 "C14-r2-B": "MISSED: picks are drawn in blocks of 512 and the block is only re-permuted; needs an ensemble of more than 512 molecules, the bounded runs yield at most 4 (sized rng.choice is now modelled lazily, the check stays silent)",
 "C15-r2-A": "missed first: percentages outside 0-100 are now unbounded (every printing class) and written in every spelling",
 "C15-r2-B": "",
 "C16-r2-A": "missed first: the graph of the mirror taken after the graph was drawn is checked against the mirror itself",
 "C16-r2-B": "a change of the generator: reported by C08 (terminal weight / list transfer)",
 "C17-r2-A": "",
 "C17-r2-B": "",
 "C18-r2-A": "missed first: skeleton 'sz-dollar-blocks-saturated-linker' added",
 "C18-r2-B": "missed first: package state is reset before every path and the obligation 'a later generation consumes the generator like the first' added (replayed with real generators and equal seeds)",
 "C19-r2-A": "missed first: skeleton 'same-unit-in-adjacent-blocks' added (reference law summed over the splits)",
 "C19-r2-B": "first exit 3 only (an uninterpreted CDF separates F(round(x)) from F(x), the real discrete law does not for masses with a fraction below .5): skeleton 'chlorinated-unit-discrete-law' added, counter-examples are replayed per chain length",
 "C20-r2-A": "missed first: case 'molgen-typing-sequences' added (typable / isotope-labelled / untypable molecules typed in sequence through MolGen.forcefield_types)",
 "C20-r2-B": "missed first: same new case",
}
rows = []
for d in sorted(glob.glob("/verif/seeded/*/meta.json")):
    m = json.load(open(d))
    name = m["name"]
    checks = m.get("checks") or {}
    verdicts = ", ".join(f"{k}: {v['verdict']}" for k, v in checks.items()) or "-"
    demo = f"{m.get('demo_clean_exit')}/{m.get('demo_patched_exit')}"
    tests = (m.get("tests") or "not run").split(" in ")[0]
    files = "; ".join(x.split("|")[0].strip() for x in (m.get("files_touched") or [])[:-1]) or "-"
    rows.append(f"| {name} | {files} | {demo} | {tests} | {verdicts} | {NOTES.get(name, '')} |")
print("| seeded change | files | demo exit clean/patched | test-suite on the patched tree | quick checks against the patched tree | remarks |")
print("|---|---|---|---|---|---|")
print("\n".join(rows))
