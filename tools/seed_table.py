#!/usr/bin/env python3
"""Print the markdown table of seeded changes (from /verif/seeded/*/meta.json) for DESIGN.md 9.6."""
import json, os, glob
NOTES = {
 "C10-agent-1": "missed by the first quick tier (skeleton with a left-terminal list was thorough-only): moved into the quick list",
 "C10-agent-2": "C10 first could not see it (draw stubbed): obligation 'every draw uses the supplied generator, once per block' added; C07 and C09 also report it",
 "C06-agent-2": "missed first: skeleton 'list-handover-to-shorter-table' added (a block whose chain-end descriptor carries a list hands over to a block with a shorter table)",
 "C08-agent-1": "same change as C06-agent-2; caught through the block-start obligation (terminal weight / list transfer)",
 "C04-agent-1": "C04 first silent (its oracle used the code's own atom indices): obligation 'the bond joins the atoms the descriptors are written on' (token text read by RDKit) and skeleton 'same-fragment-two-orders' added; the observers were made signature-agnostic",
 "C04-agent-2": "missed first: ill-posed skeleton 'terminal-list-incompatible-entry' added (exceptions are acceptable there, a bond between incompatible descriptors is not)",
 "C02-agent-1": "missed first (only the number of atoms was compared): every recorded atom is now compared with the element / charge RDKit reads at that position",
 "C05-agent-1": "first a harness error: the harness-side look-ahead sanitised the molecule earlier than the code and raised first; the look-ahead never raises now. Skeleton 'isotope-labelled-unit' added; C05 reports a sanitisation failure during generation",
 "C05-agent-2": "skeleton 'descriptor-after-branch' added; also reported by C02",
 "C15-agent-1": "missed first: the distribution-name operator only replaced / dropped a character; inserting one ('gaussz') added",
 "C16-agent-1": "missed first: molecules with descriptors of equal symbol but different bond order added to C16's list (graph construction needs no generability)",
 "C16-agent-2": "missed first: C16 now proves that building the graph leaves every weight untouched and that a second graph is the same",
 "C12-agent-2": "could not be kept: the patch no longer applies after the repair 'percentages above 100 %' (same lines); the behaviour it seeds is rejected earlier now",
 "C20-agent-1": "first a vacuity error (the matcher stub has no MolToSmiles): case 'real-typing-history' added (two spellings of one molecule typed on one assigner with the real RDKit and bundled files)",
 "C20-agent-2": "missed first: refusal case extended with zero-weight open descriptors",
 "C14-agent-1": "missed first: the numpy shim had no integer arrays; assignment into an integer array now truncates as numpy does",
 "C14-agent-2": "missed first: declared shares of exactly 0 % admitted; obligation 'the pick is over all declared components' got a replay",
 "C17-agent-1": "missed first: a second generate() on the same object must give the same graph",
 "C17-agent-2": "missed first: molecules with two id families in directly adjacent stochastic objects added",
 "C18-agent-1": "missed first: skeleton with a double bond between the two descriptor atoms added",
 "C18-agent-2": "first a harness error (numpy.random.choice not modelled): legacy global numpy.random functions are routed to a hook generator whose use is an obligation failure",
 "C19-agent-1": "first a harness error (np.all on numbers): numeric truthiness modelled; skeleton with a zero-weight start end group and a start law summed over the starts that yield the molecule",
 "C19-agent-2": "skeleton whose prefix fragment occurs twice added (the renumbering obligation on the existing skeletons also reports it)",
 "C01-agent-2": "not visible to C01 (no generation between parse and print there); reported by C10 'generate changed the parsed object'",
 "C09-agent-2": "a change of System.generator's stop rule: reported by C13 (C09 claims the plumbing only)",
 "C13-agent-2": "",
}
rows = []
for d in sorted(glob.glob("/verif/seeded/*/meta.json")):
    m = json.load(open(d))
    name = m["name"]
    checks = m.get("checks") or {}
    verdicts = ", ".join(f"{k}: {v['verdict']}" for k, v in checks.items()) or "-"
    demo = f"{m.get('demo_clean_exit')}/{m.get('demo_patched_exit')}"
    tests = (m.get("tests") or "not run").split(" in ")[0]
    files = "; ".join(x.split("|")[0].strip() for x in (m.get("files_touched") or [])[:-1]) or "-"
    rows.append(f"| {name} | {files} | {demo} | {tests} | {verdicts} | {NOTES.get(name, '')} |")
print("| seeded change | files | demo exit clean/patched | test-suite on the patched tree | quick checks against the patched tree | remarks |")
print("|---|---|---|---|---|---|")
print("\n".join(rows))
