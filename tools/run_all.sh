#!/bin/bash
# run every registered check once (tier = $1, default quick) against /repo and summarise
cd "$(dirname "$0")/.."
tier="${1:-quick}"
for id in $(python3 -c "import json; print(' '.join(c['property_id'] for c in json.load(open('MANIFEST.json'))['checks']))"); do
  start=$(date +%s)
  out=$(./vf check $id --tier $tier 2>&1)
  code=$?
  end=$(date +%s)
  echo "$id exit=$code $((end-start))s | $(echo "$out" | grep "^\[$id" | cut -c1-200)"
  echo "$out" | grep "^VIOLATION\|^HARNESS\|^NOTE" | cut -c1-250
done
