#!/usr/bin/env python3
"""Evaluate an independently seeded change (from a sub-agent) against the checks.

  tools/seed_eval.py <src_dir> <property> <name> [--checks C07,C06] [--tests]

<src_dir> holds patch.diff, demo.py, notes.md.  Steps: fresh scratch worktree of /repo HEAD, demo on the clean tree
(must exit 0), apply the patch, demo again (must exit non-zero), optionally the repository's test-suite on the
patched tree, then the listed checks (default: the property's own) against the patched tree through
GBIGSMILES_REPO.  Results go to /verif/seeded/<name>/ (patch.diff, demo.py, notes.md, meta.json).
"""
import json
import os
import shutil
import subprocess
import sys
import time

HERE = os.path.dirname(os.path.dirname(os.path.abspath(__file__)))


def sh(cmd, **kw):
    return subprocess.run(cmd, capture_output=True, text=True, **kw)


def main():
    src, prop, name = sys.argv[1:4]
    checks = [prop]
    run_tests = "--tests" in sys.argv
    for i, a in enumerate(sys.argv):
        if a == "--checks":
            checks = sys.argv[i + 1].split(",")
    wt = f"/tmp/seedeval-{name}"
    sh(["git", "-C", "/repo", "worktree", "remove", "--force", wt])
    shutil.rmtree(wt, ignore_errors=True)
    r = sh(["git", "-C", "/repo", "worktree", "add", "-q", "--detach", wt, "HEAD"])
    if r.returncode:
        print(r.stderr)
        sys.exit(2)
    shutil.copy("/repo/src/gbigsmiles/_version.py", os.path.join(wt, "src", "gbigsmiles", "_version.py"))
    env = dict(os.environ, PYTHONPATH=os.path.join(wt, "src"), PYTHONDONTWRITEBYTECODE="1")
    meta = {"property": prop, "name": name, "repo_head": sh(["git", "-C", "/repo", "rev-parse", "--short", "HEAD"]).stdout.strip(), "ran": []}
    try:
        demo = os.path.join(src, "demo.py")
        t0 = time.time()
        r0 = sh(["/venv/bin/python", demo], env=env, cwd=wt, timeout=900)
        meta["demo_clean_exit"] = r0.returncode
        meta["ran"].append(f"PYTHONPATH=<clean worktree>/src /venv/bin/python demo.py -> exit {r0.returncode}")
        ap = sh(["git", "-C", wt, "apply", os.path.join(src, "patch.diff")])
        if ap.returncode:
            meta["apply_error"] = ap.stderr[-500:]
            print("PATCH DOES NOT APPLY", ap.stderr[-300:])
            return finish(meta, src, name)
        meta["files_touched"] = sh(["git", "-C", wt, "diff", "--stat"]).stdout.strip().splitlines()
        r1 = sh(["/venv/bin/python", demo], env=env, cwd=wt, timeout=900)
        meta["demo_patched_exit"] = r1.returncode
        meta["demo_patched_output"] = (r1.stdout + r1.stderr)[-600:]
        meta["ran"].append(f"git apply patch.diff; PYTHONPATH=<patched worktree>/src /venv/bin/python demo.py -> exit {r1.returncode}")
        if run_tests:
            rt = sh(["/venv/bin/python", "-m", "pytest", "-q", "-p", "no:cacheprovider", "--timeout=900", "--deselect", "tests/test_distribution.py::test_flory_schulz",
                     "--deselect", "tests/test_distribution.py::test_schulz_zimm"], env=env, cwd=wt, timeout=3000)
            tail = (rt.stdout.strip().splitlines() or ["?"])[-1]
            meta["tests"] = tail
            meta["tests_pass"] = rt.returncode == 0
            meta["ran"].append(f"pytest (whole suite minus the always-failing test_flory_schulz and the flaky test_schulz_zimm) on the patched tree -> {tail}")
        meta["checks"] = {}
        for chk in checks:
            e2 = dict(os.environ, GBIGSMILES_REPO=wt, VERIF_SCRATCH_OUT=f"/tmp/seedeval-out-{name}")
            t1 = time.time()
            rc = sh([os.path.join(HERE, "vf"), "check", chk, "--tier", "quick"], env=e2, cwd=HERE, timeout=3000)
            lines = rc.stdout.splitlines()
            what = [l.strip() for l in lines if l.strip().startswith("what:")][:3]
            herr = [l for l in lines if l.startswith("HARNESS-ERROR")][:2]
            meta["checks"][chk] = {"exit": rc.returncode, "verdict": {0: "silent", 1: "VIOLATION"}.get(rc.returncode, f"exit {rc.returncode}"),
                                   "what": [w[:300] for w in what], "harness_errors": [h[:300] for h in herr], "wall_s": round(time.time() - t1)}
            meta["ran"].append(f"GBIGSMILES_REPO=<patched worktree> ./vf check {chk} --tier quick -> exit {rc.returncode}")
        return finish(meta, src, name)
    finally:
        sh(["git", "-C", "/repo", "worktree", "remove", "--force", wt])
        shutil.rmtree(wt, ignore_errors=True)
        shutil.rmtree(f"/tmp/seedeval-out-{name}", ignore_errors=True)


def finish(meta, src, name):
    out = os.path.join(HERE, "seeded", name)
    os.makedirs(out, exist_ok=True)
    old = {}
    if os.path.exists(os.path.join(out, "meta.json")):
        old = json.load(open(os.path.join(out, "meta.json")))
    tj = os.path.join(out, "tests.json")
    if "tests" not in meta and os.path.exists(tj):  # the test-suite is run separately (tools/seed_tests.py)
        t = json.load(open(tj))
        meta["tests"], meta["tests_pass"] = t["tests"], t["tests_pass"]
        meta["ran"] += t.get("ran", [])
    for k, v in (old.get("checks") or {}).items():  # verdicts of checks that were not re-run stay, marked as earlier
        if k not in (meta.get("checks") or {}):
            meta.setdefault("checks", {})[k] = dict(v, earlier=True)
    if "tests" not in meta and "tests" in old:  # a re-evaluation of the checks keeps the recorded test-suite result
        meta["tests"], meta["tests_pass"] = old["tests"], old.get("tests_pass")
        meta["ran"] += [r for r in old.get("ran", []) if "pytest" in r]
    for f in ("patch.diff", "demo.py", "notes.md"):
        if os.path.exists(os.path.join(src, f)) and os.path.realpath(src) != os.path.realpath(out):
            shutil.copy(os.path.join(src, f), os.path.join(out, f))
    notes = os.path.join(src, "notes.md")
    if os.path.exists(notes):
        meta["needs_to_manifest"] = open(notes).read()[:1500]
    with open(os.path.join(out, "meta.json"), "w") as fh:
        json.dump(meta, fh, indent=1)
    print(json.dumps({k: meta.get(k) for k in ("name", "demo_clean_exit", "demo_patched_exit", "tests", "checks")}, indent=1)[:1500])


if __name__ == "__main__":
    main()
