#!/usr/bin/env python3
"""Re-evaluate every kept seeded change against the checks listed for it in seeded/CHECKS.json (quick tier), N at a time.
   tools/seed_all.py [-j N] [name-substring ...]"""
import json, os, subprocess, sys
from concurrent.futures import ThreadPoolExecutor

HERE = os.path.dirname(os.path.dirname(os.path.abspath(__file__)))
chk = json.load(open(os.environ.get("SEED_CHECKS") or os.path.join(HERE, "seeded", "CHECKS.json")))
args = sys.argv[1:]
jobs = 3
if "-j" in args:
    i = args.index("-j")
    jobs = int(args[i + 1])
    del args[i:i + 2]
names = [n for n in sorted(chk) if not args or any(a in n for a in args)]


def run(n):
    d = os.path.join(HERE, "seeded", n)
    r = subprocess.run([sys.executable, os.path.join(HERE, "tools", "seed_eval.py"), d, n.split("-")[0], n, "--checks", ",".join(chk[n])], capture_output=True, text=True)
    try:
        m = json.load(open(os.path.join(d, "meta.json")))
        line = f"{n} demo {m.get('demo_clean_exit')}/{m.get('demo_patched_exit')} tests={m.get('tests_pass')} | " + " ".join(f"{k}:{v['verdict']}" for k, v in (m.get("checks") or {}).items())
    except Exception as e:
        line = f"{n} ERROR {e} {r.stdout[-200:]} {r.stderr[-200:]}"
    print(line, flush=True)
    return line


with ThreadPoolExecutor(jobs) as ex:
    list(ex.map(run, names))
