#!/usr/bin/env python3
"""Prepare one scratch worktree of /repo and one TASK.md per claimed property for a round of
independently seeded changes (DESIGN.md 9.6 / 9.7).

    python3 tools/seed_tasks.py <round-number>      ->  /tmp/seed<round>/<ID>/TASK.md

The task text is tools/seed_task_example.md with the property substituted; a sub-agent gets nothing
else (no path under /verif).  The titles of the changes already kept under /verif/seeded/<ID>-* are
listed as "ideas already used".  Worktrees are removed again with `git -C /repo worktree remove`.
"""
import glob
import json
import os
import re
import subprocess
import sys

HERE = os.path.dirname(os.path.dirname(os.path.abspath(__file__)))


def main():
    rnd = sys.argv[1]
    root = f"/tmp/seed{rnd}"
    os.makedirs(root, exist_ok=True)
    tmpl = open(os.path.join(HERE, "tools", "seed_task_example.md")).read()
    props = {}
    for line in open(os.path.join(HERE, "properties.jsonl")):
        p = json.loads(line)
        props[p["id"]] = p
    manifest = json.load(open(os.path.join(HERE, "MANIFEST.json")))
    skip = {x["id"] if isinstance(x, dict) else x for x in manifest.get("not_applicable", [])}
    ex = props["C05"]
    for pid in sorted(props):
        if pid in skip:
            continue
        wt = f"{root}/{pid}"
        if not os.path.isdir(wt):
            subprocess.run(["git", "-C", "/repo", "worktree", "add", "--detach", wt, "HEAD"],
                           check=True, capture_output=True)
        used = []
        for m in sorted(glob.glob(os.path.join(HERE, "seeded", f"{pid}-*", "meta.json"))):
            d = json.load(open(m))
            t = (d.get("needs_to_manifest") or "").split("\n")[0]
            t = re.sub(r"^#\s*\S+\s*/\s*change\s*\w+\s*[-:]\s*", "", t).strip()
            if t:
                used.append(t)
        s = tmpl.replace("/tmp/seed4/C05", wt)
        s = s.replace("C05: " + ex["title"], pid + ": " + props[pid]["title"])
        s = s.replace(ex["statement"], props[pid]["statement"])
        s = s.replace("under /tmp/seed3 or /tmp/seed2", "under /tmp")
        a = s.index("Ideas already used by others")
        b = s.index("Prefer kinds of change")
        s = (s[:a] + "Ideas already used by others, which you must NOT repeat (nor close variants of them): "
             + "; ".join(used) + ".\n" + s[b:])
        s = s.replace("# C05 /", "# " + pid + " /")
        s = s.replace("never use `git stash`",
                      "never use `git stash` and never use `pkill`/`killall` (other people run the same "
                      "commands on this machine; kill only process ids you started)")
        os.makedirs(wt + "/out", exist_ok=True)
        open(wt + "/TASK.md", "w").write(s)
        print(wt)


if __name__ == "__main__":
    main()
