"""gen-driver: run the real Molecule.generate with symbolic weights, symbolic drawn
targets and every rng.choice outcome; observers record what happened."""
from __future__ import annotations

import copy
import sys

from . import core, loader, npshim
from .core import SymReal
from .rng import SymRng

W_LO, W_HI = 1e-6, 1e6


def all_descriptors(mol):
    """every BondDescriptor object of a parsed Molecule, with a role tag"""
    out = []
    g = sys.modules["gbigsmiles"]
    for ei, el in enumerate(mol._elements):
        if isinstance(el, g.Stochastic):
            out.append((("L", ei), el.left_terminal))
            for ti, t in enumerate(el.repeat_tokens):
                for bi, bd in enumerate(t.bond_descriptors):
                    out.append((("R", ei, ti, bi), bd))
            for ti, t in enumerate(el.end_tokens):
                for bi, bd in enumerate(t.bond_descriptors):
                    out.append((("E", ei, ti, bi), bd))
            out.append((("T", ei), el.right_terminal))
        else:
            for bi, bd in enumerate(el.bond_descriptors):
                out.append((("K", ei, bi), bd))
    return out


def symbolize_weights(c, mol, mode="all", lo=W_LO, hi=W_HI, avoid_one=False):
    """Replace every written positive weight by a fresh real in [lo, hi]; zeros stay 0.
    Lists become lists of fresh reals with the same zero pattern, weight = their sum.
    Returns {role: term}."""
    out = {}
    for role, bd in all_descriptors(mol):
        if bd.descriptor == "":
            continue
        name = "w_" + "_".join(str(x) for x in role)
        if bd.transitions is not None:
            vals = []
            for k, t in enumerate(list(bd.transitions)):
                if t == 0:
                    vals.append(0.0)
                else:
                    vals.append(c.fresh_real(f"{name}_t{k}", lo, hi))
            bd.transitions = npshim.Arr(vals)
            bd.weight = bd.transitions.sum()
            out[role] = list(vals)
        else:
            if bd.weight == 0:
                out[role] = 0.0
                continue
            if bd.weight < 0:
                out[role] = bd.weight
                continue
            bd.weight = c.fresh_real(name, lo, hi)
            if avoid_one:
                # the printers fork on `weight != 1.0`; for molecules with many descriptors the single value 1.0 is excluded
                # (stated in the evidence) so that printing does not multiply the paths by 2^descriptors
                c.add((bd.weight != 1.0).e)
            out[role] = bd.weight
    return out


class Ref:
    """identity-preserving reference (survives copy.deepcopy of the holder)"""

    __slots__ = ("obj",)

    def __init__(self, obj):
        self.obj = obj

    def __deepcopy__(self, memo):
        return self

    def __copy__(self):
        return self


class Observer:
    """Records attach_other calls, MolGen creations, mass measurements and draws."""

    def __init__(self):
        self.attachments = []
        self.molgens = []
        self.masses = []
        self.draws = []
        self.events = []


def install_observers(g, obs, target_hi=None, target_lo=None):
    """Wrap (in the checking process only) MolGen.__init__/attach_other, HeavyAtomMolWt as
    seen by stochastic.py, and draw_mw of every distribution class."""
    mg = sys.modules["gbigsmiles.mol_gen"]
    st = sys.modules["gbigsmiles.stochastic"]
    di = sys.modules["gbigsmiles.distribution"]
    MolGen = mg.MolGen

    if not hasattr(MolGen, "_sx_orig_init"):
        MolGen._sx_orig_init = MolGen.__init__
        MolGen._sx_orig_attach = MolGen.attach_other

    def init(self, token, *args, **kwargs):
        MolGen._sx_orig_init(self, token, *args, **kwargs)
        o = OBS[0]
        if o is not None:
            self._sx_serial = len(o.molgens)
            self._sx_token = Ref(token)
            self._sx_bonds = []
            self._sx_residues = [(Ref(token), 0, self._mol.GetNumAtoms())]
            o.molgens.append((self, token))
            o.events.append(("new", token))

    def attach(self, self_bond_idx, other, other_bond_idx, *args, **kwargs):
        o = OBS[0]
        if o is None:
            return MolGen._sx_orig_attach(self, self_bond_idx, other, other_bond_idx, *args, **kwargs)
        rec = {
            "self_idx": self_bond_idx,
            "other_idx": other_bond_idx,
            "self_open": [bd_state(b) for b in self.bond_descriptors],
            "other_open": [bd_state(b) for b in other.bond_descriptors],
            "natoms_self": self._mol.GetNumAtoms(),
            "natoms_other": other._mol.GetNumAtoms(),
            "nbonds_self": self._mol.GetNumBonds(),
            "nbonds_other": other._mol.GetNumBonds(),
            "self_serial": getattr(self, "_sx_serial", None),
            "other_serial": getattr(other, "_sx_serial", None),
            "self_obj": self,
            "site": sys._getframe(1).f_code.co_name,
            "self_residues": list(getattr(self, "_sx_residues", [])),
            "mol_self_before": self._mol,
            "mol_other_before": other._mol,
            "other_token": getattr(other, "_sx_token", Ref(None)).obj,
        }
        # reading an accessor must not change what later calls return (a cached value would go stale when the molecule grows)
        for m_ in (self, other):
            try:
                m_.weight
            except Exception:
                pass
        # the descriptor object the caller picked for the new unit (local name of the pinned code; absent after a refactoring)
        picked = sys._getframe(1).f_locals.get("connecting_bond")
        rec["picked_num"] = getattr(picked, "descriptor_num", None) if picked is not None and not isinstance(picked, int) else None
        res = MolGen._sx_orig_attach(self, self_bond_idx, other, other_bond_idx, *args, **kwargs)
        rec["after_open"] = [bd_state(b) for b in res.bond_descriptors]
        rec["natoms_after"] = res._mol.GetNumAtoms()
        rec["nbonds_after"] = res._mol.GetNumBonds()
        rec["result_is_self"] = res is self
        rec["mol_after"] = res._mol
        offs = rec["natoms_self"]
        a_bd = rec["self_open"][self_bond_idx] if self_bond_idx < len(rec["self_open"]) else None
        b_bd = rec["other_open"][other_bond_idx] if other_bond_idx < len(rec["other_open"]) else None
        if a_bd is not None and b_bd is not None:
            res._sx_bonds = list(getattr(self, "_sx_bonds", [])) + [
                (x + offs, y + offs, t) for (x, y, t) in getattr(other, "_sx_bonds", [])
            ] + [(int(a_bd["atom"]), int(b_bd["atom"]) + offs, a_bd["bond_type"])]
        res._sx_residues = list(getattr(self, "_sx_residues", [])) + [
            (t, a + offs, b + offs) for (t, a, b) in getattr(other, "_sx_residues", [])
        ]
        o.attachments.append(rec)
        o.events.append(("attach", rec))
        if PROPHECY[0] and core.have_ctx() and rec["site"] == "add_repeat_unit":
            # (1) the provisional capping of the previous iteration has just been discarded by
            #     the code: its picks keep one representative value (no alternatives explored);
            # (2) decide the loop's comparison *before* the provisional capping of this iteration
            #     (harness-side split only), so that capping picks are explored in full exactly
            #     on the side where the capped copy is kept.
            c = core.ctx()
            c.discard_tentative()
            f = sys._getframe(2)
            if f.f_code.co_name == "generate_repeat_units_and_finalize" and len(res.bond_descriptors) > 0:
                start = f.f_locals.get("starting_mol_weight")
                target = f.f_locals.get("target_mol_weight")
                from rdkit.Chem import Descriptors as _D

                if start is None or target is None:
                    return res
                try:
                    m = _D.HeavyAtomMolWt(res.mol)
                except Exception:
                    m = None  # the code itself will meet this failure at its own sanitisation; the harness must not raise first
                if m is not None:
                    bool(m - start > target)
                    c.begin_tentative()
        return res

    MolGen.__init__ = init
    MolGen.attach_other = attach

    # mass measurements made by stochastic.py
    class _Desc:
        def __init__(self, real):
            self._real = real

        def HeavyAtomMolWt(self, mol):
            v = self._real.HeavyAtomMolWt(mol)
            o = OBS[0]
            if o is not None:
                o.masses.append((v, mol.GetNumAtoms()))
                o.events.append(("mass", v, mol.GetNumAtoms()))
                if core.have_ctx():
                    core.ctx().end_tentative()
            return v

        def __getattr__(self, n):
            return getattr(self._real, n)

    # (a changed stochastic.py may measure the mass in another way: then there are no mass events and the oracle of C07
    # falls back on the residue masses it computes itself)
    if hasattr(st, "rdDescriptors") and not isinstance(st.rdDescriptors, _Desc) and not hasattr(st.rdDescriptors, "_real"):
        st.rdDescriptors = _Desc(st.rdDescriptors)

    # draws
    def draw(self, rng=None):
        o = OBS[0]
        t = DRAW_FN[0](self, rng)
        if o is not None:
            o.draws.append((self, t, rng))
            o.events.append(("draw", self, t))
        return t

    for cls in (di.Distribution, di.FlorySchulz, di.SchulzZimm, di.LogNormal, di.Gauss, di.Uniform, di.Poisson):
        if "draw_mw" in cls.__dict__:
            if "_sx_orig_draw" not in cls.__dict__:
                cls._sx_orig_draw = cls.__dict__["draw_mw"]
            cls.draw_mw = draw


def restore_draws(g):
    """undo the draw stub (replays that need the real distributions)"""
    di = sys.modules["gbigsmiles.distribution"]
    for cls in (di.Distribution, di.FlorySchulz, di.SchulzZimm, di.LogNormal, di.Gauss, di.Uniform, di.Poisson):
        if "_sx_orig_draw" in cls.__dict__:
            cls.draw_mw = cls.__dict__["_sx_orig_draw"]


def symbolic_draw(bounds_by_dist, default_hi=None):
    """draw stub: a fresh real target, unconstrained below, < hi above (hi per distribution object)"""

    def fn(dist, rng):
        c = core.ctx()
        hi = bounds_by_dist.get(id(dist), default_hi)
        return c.fresh_real("target", None, hi, hi_strict=True)

    return fn


def scripted_draw(values):
    it = iter(values)

    def fn(dist, rng):
        return next(it)

    return fn


OBS = [None]
DRAW_FN = [None]
PROPHECY = [True]


def bd_state(bd):
    return {
        "sym": bd.descriptor,
        "id": bd.descriptor_id,
        "bond_type": bd.bond_type,
        "weight": bd.weight,
        "transitions": None if bd.transitions is None else list(bd.transitions),
        "atom": getattr(bd, "atom_bonding_to", None),
        "node": getattr(bd, "node_idx", None),
        "num": bd.descriptor_num,
        "obj": bd,
    }


def compatible(a, b):
    """the conjugation rule of C03 written independently on recorded states"""
    if a["sym"] == "" or b["sym"] == "":
        return False
    if a["id"] != b["id"]:
        return False
    if a["bond_type"] != b["bond_type"]:
        return False
    pair = (a["sym"], b["sym"])
    return pair in (("$", "$"), ("<", ">"), (">", "<"))


