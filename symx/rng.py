"""Nondeterministic stand-in for numpy.random.Generator.

Contract assumed (numpy's documented behaviour of Generator.choice): `p` must be
non-negative and sum to 1 (else ValueError); an element of probability zero is never
returned; every element of positive probability may be returned.
"""
from __future__ import annotations

import sys

from . import core
from .core import SymInt, SymReal
from .npshim import NAN, Arr


class ChoiceRecord:
    __slots__ = ("site", "n", "p", "index", "items", "tag")

    def __init__(self, site, n, p, index, items):
        self.site = site
        self.n = n
        self.p = p
        self.index = index
        self.items = items
        self.tag = None


def _site(depth=2):
    f = sys._getframe(depth)
    # skip frames inside symx
    while f is not None and "/symx/" in f.f_code.co_filename:
        f = f.f_back
    if f is None:
        return ("?", "?", 0)
    return (f.f_code.co_filename.rsplit("/", 1)[-1], f.f_code.co_name, f.f_lineno)


class LazyPicks:
    """result of rng.choice(a, size=n, p=p): n independent picks, each decided (and explored) when it is first looked at"""

    def __init__(self, rng, a, p, n):
        self.rng, self.a, self.p, self.n = rng, a, p, n
        self.vals = {}

    def __deepcopy__(self, memo):
        return self

    def __len__(self):
        return self.n

    def __getitem__(self, k):
        if isinstance(k, SymInt):
            k = k.__index__()
        if isinstance(k, slice):
            raise core.Unsupported("slice of a block of picks")
        if not -self.n <= k < self.n:
            raise core.emulated(IndexError("index out of bounds"))
        k %= self.n
        if k not in self.vals:
            self.vals[k] = self.rng.choice(self.a, p=self.p)
        return self.vals[k]

    def __iter__(self):
        if self.n > 8:
            raise core.Unsupported("iteration over a block of more than 8 picks")
        return iter([self[k] for k in range(self.n)])

    def tolist(self):
        return list(self)


class SymRng:
    """rng.choice explores every element of positive probability."""

    def __init__(self, zero_threshold=0, on_choice=None, check_sum=True, forced=None):
        # forced: indices the first len(forced) choice calls must take (sharding of the exploration: the shards for all
        # index combinations partition the paths); an index that is out of range or has probability zero ends the shard
        self.forced = list(forced or [])
        self.calls = []
        self.zero_threshold = zero_threshold
        self.on_choice = on_choice
        self.check_sum = check_sum
        self.other_calls = []

    def __deepcopy__(self, memo):
        return self

    def choice(self, a, size=None, replace=True, p=None, axis=0, shuffle=True):
        c = core.ctx()
        if size is not None:
            if isinstance(size, (tuple, list)):
                if len(size) != 1:
                    raise core.Unsupported("rng.choice with a multi-dimensional size")
                size = size[0]
            if not replace:
                raise core.Unsupported("rng.choice without replacement")
            return LazyPicks(self, a, p, int(size))
        if isinstance(a, (int, SymInt)):
            items = list(range(int(a)))
        elif isinstance(a, Arr):
            items = list(a.v)
        else:
            items = list(a)
        n = len(items)
        site = _site()
        pv = None
        if p is not None:
            pv = list(p.v) if isinstance(p, Arr) else list(p)
        rec = ChoiceRecord(site, n, pv, None, items)
        if self.on_choice is not None:
            self.on_choice(rec, c)  # the oracle sees the call before numpy's own validation
        if n == 0:
            raise core.emulated(ValueError("a cannot be empty unless no samples are taken"))
        if p is None:
            conds = [True] * n
        else:
            if len(pv) != n:
                raise core.emulated(ValueError("a and p must have same size"))
            if any(x is NAN for x in pv):
                raise core.emulated(ValueError("probabilities contain NaN"))
            ok = core.And(*[x >= 0 for x in pv])
            if not ok:
                raise core.emulated(ValueError("probabilities are not non-negative"))
            if self.check_sum:
                total = pv[0]
                for x in pv[1:]:
                    total = total + x
                if not (abs(total - 1) <= 1e-8):  # numpy's own tolerance
                    raise core.emulated(ValueError("probabilities do not sum to 1"))
            thr = self.zero_threshold
            conds = [x > thr for x in pv]
        k = len(self.calls)
        if k < len(self.forced):
            f = self.forced[k]
            conds = [cd if j == f else False for j, cd in enumerate(conds)]
        i = c.choose(conds, label="rng.choice")
        rec.index = i
        self.calls.append(rec)
        c.note("choice", site, i, n)
        return items[i]

    def _fresh_unit(self, name):
        c = core.ctx()
        v = c.fresh_real(name, 0, 1, hi_strict=True)
        self.other_calls.append((name, v))
        return v

    def random(self, size=None):
        if size is not None:
            raise core.Unsupported("rng.random with size")
        return self._fresh_unit("rng.random")

    def uniform(self, low=0.0, high=1.0, size=None):
        if size is not None:
            raise core.Unsupported("rng.uniform with size")
        u = self._fresh_unit("rng.uniform")
        return low + (high - low) * u

    def integers(self, low, high=None, size=None):
        if high is None:
            low, high = 0, low
        c = core.ctx()
        v = c.fresh_int("rng.integers", low, high - 1)
        self.other_calls.append(("integers", v))
        return v
