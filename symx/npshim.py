"""A list-backed stand-in for the handful of numpy operations the package applies to
weights / probabilities, with the same element-wise semantics over symx proxies.

Installed as the name `np` in the modules core, bond, system, molecule-free code paths,
graph_generate and mol_prob of the *checking process only*.

log/exp are kept as an exact product algebra: log(x) is represented as LogVal(x),
LogVal(a)+LogVal(b)=LogVal(a*b), exp(LogVal(x)) = x, -inf = LogVal(0).
"""
from __future__ import annotations

import math

import numpy as _real_np

from . import core
from .core import SymBool, SymInt, SymReal, is_number, is_sym


class _NaN:
    """Result of a division by an exactly-zero normaliser (nan/inf in numpy)."""

    def _r(self, *a):
        return self

    __add__ = __radd__ = __sub__ = __rsub__ = __mul__ = __rmul__ = _r
    __truediv__ = __rtruediv__ = __neg__ = __abs__ = _r

    def _f(self, o):
        return False

    __lt__ = __le__ = __gt__ = __ge__ = __eq__ = _f

    def __ne__(self, o):
        return True

    def __hash__(self):
        return 7

    def __repr__(self):
        return "nan"


NAN = _NaN()


def is_nan(x):
    return x is NAN


def _div(a, b):
    """numpy-style scalar division: x/0 -> NAN marker instead of ZeroDivisionError."""
    if a is NAN or b is NAN:
        return NAN
    if not is_sym(a) and not is_sym(b):
        if b == 0:
            return NAN
        return a / b
    try:
        return a / b
    except ZeroDivisionError:
        return NAN


class Arr:
    def __init__(self, items, dtype=float):
        self.v = list(items)
        self.dtype = dtype

    def __deepcopy__(self, memo):
        return Arr(self.v, self.dtype)

    def __len__(self):
        return len(self.v)

    def __iter__(self):
        return iter(self.v)

    def __getitem__(self, i):
        if isinstance(i, Arr):
            # boolean mask (numpy fancy indexing): every symbolic mask entry forks
            if len(i.v) != len(self.v):
                raise core.emulated(IndexError("boolean index did not match indexed array"))
            if all(isinstance(m, (bool, SymBool)) for m in i.v):
                return Arr([x for x, m in zip(self.v, i.v) if (m if isinstance(m, bool) else bool(m))], self.dtype)
            return Arr([self.v[int(k)] for k in i.v], self.dtype)
        if isinstance(i, (list, tuple)):
            return Arr([self.v[int(k)] for k in i], self.dtype)
        if isinstance(i, slice):
            return Arr(self.v[i], self.dtype)
        if isinstance(i, SymInt):
            i = i.__index__()
        return self.v[i]

    def __setitem__(self, i, x):
        if self.dtype is int and not isinstance(x, (int, SymInt)):
            x = core.to_int_trunc(x) if is_sym(x) else int(x)  # numpy truncates on assignment into an integer array
        self.v[i] = x

    @property
    def shape(self):
        return (len(self.v),)

    def tolist(self):
        return list(self.v)

    def _ew(self, o, f):
        if isinstance(o, (Arr, list, tuple)):
            o = list(o)
            if len(o) != len(self.v):
                if len(o) == 1:
                    o = o * len(self.v)
                elif len(self.v) == 1:
                    return Arr([f(self.v[0], b) for b in o])
                else:
                    raise ValueError(
                        f"operands could not be broadcast together with shapes ({len(self.v)},) ({len(o)},)"
                    )
            return Arr([f(a, b) for a, b in zip(self.v, o)])
        return Arr([f(a, o) for a in self.v])

    def _keep_int(self, o, r):
        if self.dtype is int and (isinstance(o, (int, SymInt)) and not isinstance(o, bool) or (isinstance(o, Arr) and o.dtype is int)):
            r.dtype = int
        return r

    def __add__(self, o):
        return self._keep_int(o, self._ew(o, lambda a, b: a + b))

    __radd__ = __add__

    def __sub__(self, o):
        return self._ew(o, lambda a, b: a - b)

    def __rsub__(self, o):
        return self._ew(o, lambda a, b: b - a)

    def __mul__(self, o):
        return self._ew(o, lambda a, b: a * b)

    __rmul__ = __mul__

    def __truediv__(self, o):
        return self._ew(o, _div)

    def __rtruediv__(self, o):
        return self._ew(o, lambda a, b: _div(b, a))

    def __iadd__(self, o):
        self.v = (self + o).v
        return self

    def __isub__(self, o):
        self.v = (self - o).v
        return self

    def __imul__(self, o):
        self.v = (self * o).v
        return self

    def __itruediv__(self, o):
        if self.dtype is int:
            raise core.emulated(TypeError("Cannot cast ufunc 'divide' output from dtype('float64') to dtype('int64') with casting rule 'same_kind'"))
        self.v = (self / o).v
        return self

    def __eq__(self, o):
        return self._ew(o, lambda a, b: a == b)

    def __ne__(self, o):
        return self._ew(o, lambda a, b: a != b)

    def __lt__(self, o):
        return self._ew(o, lambda a, b: a < b)

    def __le__(self, o):
        return self._ew(o, lambda a, b: a <= b)

    def __gt__(self, o):
        return self._ew(o, lambda a, b: a > b)

    def __ge__(self, o):
        return self._ew(o, lambda a, b: a >= b)

    __hash__ = None

    def sum(self):
        return sum_(self.v)

    def __repr__(self):
        return f"Arr({self.v})"


def _to_float_items(a, dtype=None):
    out = []
    for x in a:
        if is_sym(x) or x is NAN or isinstance(x, bool):
            out.append(x)
        elif dtype is int:
            out.append(int(x))
        elif dtype is float and isinstance(x, int):
            out.append(float(x))
        else:
            out.append(x)
    return out


def _infer_dtype(a):
    if len(a) > 0 and all((isinstance(x, int) and not isinstance(x, bool)) or isinstance(x, SymInt) for x in a):
        return int
    return float


def asarray(a, dtype=None):
    if isinstance(a, Arr):
        return a
    if isinstance(a, _real_np.ndarray):
        a = a.tolist()
    if isinstance(a, range):
        a = list(a)
    if isinstance(a, (list, tuple)):
        dt = dtype if dtype in (int, float) else _infer_dtype(a)
        return Arr(_to_float_items(a, dt), dt)
    raise core.Unsupported(f"asarray of {type(a)}")


array = asarray


def sum_(a):
    if isinstance(a, Arr):
        a = a.v
    total = 0
    first = True
    for x in a:
        if x is NAN:
            return NAN
        if first:
            total = x
            first = False
        else:
            total = total + x
    if first:
        return F64(0.0)
    if isinstance(total, float):
        return F64(total)
    return total


class F64(float):
    """np.float64 stand-in: a float that accepts `list / x` like numpy scalars do"""

    def __rtruediv__(self, o):
        if isinstance(o, (list, tuple)):
            return Arr(list(o)) / float(self)
        return float.__rtruediv__(self, o)

    def __deepcopy__(self, memo):
        return self


def _truth(x):
    """numpy truthiness of an array element: non-zero"""
    if isinstance(x, (bool, SymBool)):
        return x
    if x is NAN:
        return True
    return x != 0


def all_(a):
    if isinstance(a, Arr):
        a = a.v
    elif isinstance(a, (bool, SymBool)):
        return a
    elif is_sym(a) or is_number(a):
        return _truth(a)
    return core.And(*[_truth(x) for x in a])


def any_(a):
    if isinstance(a, Arr):
        a = a.v
    elif isinstance(a, (bool, SymBool)):
        return a
    elif is_sym(a) or is_number(a):
        return _truth(a)
    return core.Or(*[_truth(x) for x in a])


class LogVal:
    """log(x) for x >= 0, kept as x."""

    __slots__ = ("x",)

    def __init__(self, x):
        self.x = x

    def __deepcopy__(self, memo):
        return self

    def __add__(self, o):
        if isinstance(o, LogVal):
            return LogVal(self.x * o.x)
        if is_number(o) and o == 0:
            return self
        raise core.Unsupported("LogVal + non-log value")

    __radd__ = __add__

    def __neg__(self):
        # only -inf / +inf make sense here
        raise core.Unsupported("negation of a log value")

    def __eq__(self, o):
        if isinstance(o, LogVal):
            return self.x == o.x
        return False

    def __ne__(self, o):
        r = self.__eq__(o)
        return core.Not(r)

    __hash__ = None

    def __repr__(self):
        return f"log({self.x})"


class _Inf:
    def __neg__(self):
        return LogVal(0.0)

    def __repr__(self):
        return "inf"


inf = _Inf()
pi = math.pi


def log(x):
    if isinstance(x, LogVal):
        raise core.Unsupported("log of log")
    if x is NAN:
        raise core.Unsupported("log of nan")
    return LogVal(x)


def exp(x):
    if isinstance(x, LogVal):
        return x.x
    if is_number(x):
        return math.exp(x)
    raise core.Unsupported("exp of a non-log symbolic value")


def isinf(x):
    if isinstance(x, LogVal):
        return x.x == 0
    if is_number(x):
        return math.isinf(x)
    return False


def sqrt(x):
    if is_number(x):
        return math.sqrt(x)
    raise core.Unsupported("sqrt of a symbolic value")


def round_(x, n=0):
    if is_number(x):
        return round(x, n)
    return x


def isclose(a, b, rtol=1e-05, atol=1e-08):
    """numpy.isclose on scalars: |a - b| <= atol + rtol * |b|"""
    r = abs(a - b) <= atol + rtol * abs(b)
    return r


def zeros(n):
    return _real_np.zeros(n)


GLOBAL_RANDOM_HOOK = [None]  # harnesses install a SymRng here; its use means "the library drew from numpy's global state"


class _Random:
    @staticmethod
    def default_rng(seed=None):
        return _real_np.random.default_rng(seed)

    @staticmethod
    def _hook():
        h = GLOBAL_RANDOM_HOOK[0]
        if h is None:
            raise core.Unsupported("numpy.random.<legacy global function> used and no hook installed")
        return h

    @staticmethod
    def choice(a, size=None, replace=True, p=None):
        return _Random._hook().choice(a, size=size, replace=replace, p=p)

    @staticmethod
    def random(size=None):
        return _Random._hook().random(size)

    @staticmethod
    def rand(*a):
        return _Random._hook().random(None)

    @staticmethod
    def uniform(low=0.0, high=1.0, size=None):
        return _Random._hook().uniform(low, high, size)


class Shim:
    """Object bound to the name `np` inside the rewritten modules."""

    asarray = staticmethod(asarray)
    array = staticmethod(asarray)
    sum = staticmethod(sum_)
    all = staticmethod(all_)
    any = staticmethod(any_)
    log = staticmethod(log)
    exp = staticmethod(exp)
    isinf = staticmethod(isinf)
    sqrt = staticmethod(sqrt)
    round = staticmethod(round_)
    zeros = staticmethod(zeros)
    isclose = staticmethod(isclose)
    inf = inf
    pi = pi
    random = _Random
    ndarray = Arr
    floating = _real_np.floating
    integer = _real_np.integer


    def __getattr__(self, name):
        # a numpy function the shim does not model must fail loudly, never look like an error of the code under analysis
        raise core.Unsupported(f"numpy.{name} is not modelled by the shim")


np = Shim()
