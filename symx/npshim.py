"""A list-backed stand-in for the handful of numpy operations the package applies to
weights / probabilities, with the same element-wise semantics over symx proxies.

Installed as the name `np` in the modules core, bond, system, molecule-free code paths,
graph_generate and mol_prob of the *checking process only*.

log/exp are kept as an exact product algebra: log(x) is represented as LogVal(x),
LogVal(a)+LogVal(b)=LogVal(a*b), exp(LogVal(x)) = x, -inf = LogVal(0).
"""
from __future__ import annotations

import math

import numpy as _real_np

from . import core
from .core import SymBool, SymInt, SymReal, is_number, is_sym


class _NaN:
    """Result of a division by an exactly-zero normaliser (nan/inf in numpy)."""

    def _r(self, *a):
        return self

    __add__ = __radd__ = __sub__ = __rsub__ = __mul__ = __rmul__ = _r
    __truediv__ = __rtruediv__ = __neg__ = __abs__ = _r

    def _f(self, o):
        return False

    __lt__ = __le__ = __gt__ = __ge__ = __eq__ = _f

    def __ne__(self, o):
        return True

    def __hash__(self):
        return 7

    def __repr__(self):
        return "nan"


NAN = _NaN()


def is_nan(x):
    return x is NAN


def _div(a, b):
    """numpy-style scalar division: x/0 -> NAN marker instead of ZeroDivisionError."""
    if a is NAN or b is NAN:
        return NAN
    if not is_sym(a) and not is_sym(b):
        if b == 0:
            return NAN
        return a / b
    try:
        return a / b
    except ZeroDivisionError:
        return NAN


class Arr:
    def __init__(self, items, dtype=float):
        self.v = list(items)
        self.dtype = dtype

    def __deepcopy__(self, memo):
        return Arr(self.v, self.dtype)

    def __len__(self):
        return len(self.v)

    def __iter__(self):
        return iter(self.v)

    def __getitem__(self, i):
        idx = self._index_list(i)  # fancy indexing (positions or boolean mask; every symbolic mask entry forks)
        if idx is not None:
            return Arr([self.v[k] for k in idx], self.dtype)
        if isinstance(i, slice):
            return Arr(self.v[i], self.dtype)
        if isinstance(i, SymInt):
            i = i.__index__()
        return self.v[i]

    def _cast(self, x):
        if self.dtype is int and not isinstance(x, (int, SymInt)):
            return core.to_int_trunc(x) if is_sym(x) else int(x)  # numpy truncates on assignment into an integer array
        if self.dtype is float and isinstance(x, int) and not isinstance(x, bool):
            return float(x)
        return x

    def _index_list(self, i):
        """positions addressed by a fancy index (Arr / list of ints or booleans), None for a plain index"""
        if isinstance(i, Arr):
            i = i.v
        elif isinstance(i, _real_np.ndarray):
            i = i.tolist()
        elif not isinstance(i, (list, tuple)):
            return None
        i = list(i)
        if i and all(isinstance(m, (bool, SymBool, _real_np.bool_)) for m in i):
            if len(i) != len(self.v):
                raise core.emulated(IndexError("boolean index did not match indexed array"))
            return [k for k, m in enumerate(i) if (bool(m))]
        out = []
        for k in i:
            k = k.__index__() if isinstance(k, SymInt) else int(k)
            if not -len(self.v) <= k < len(self.v):
                raise core.emulated(IndexError(f"index {k} is out of bounds for axis 0 with size {len(self.v)}"))
            out.append(k)
        return out

    def __setitem__(self, i, x):
        idx = self._index_list(i)
        if idx is None and isinstance(i, slice):
            idx = list(range(len(self.v)))[i]
        if idx is not None:
            if isinstance(x, (Arr, list, tuple, _real_np.ndarray)):
                xs = list(x.v if isinstance(x, Arr) else x)
                if len(xs) == 1:
                    xs = xs * len(idx)
                if len(xs) != len(idx):
                    raise core.emulated(ValueError(f"shape mismatch: value array of shape ({len(xs)},) could not be broadcast to indexing result of shape ({len(idx)},)"))
            else:
                xs = [x] * len(idx)
            for k, val in zip(idx, xs):
                self.v[k] = self._cast(val)
            return
        if isinstance(i, SymInt):
            i = i.__index__()
        self.v[i] = self._cast(x)

    @property
    def shape(self):
        return (len(self.v),)

    def tolist(self):
        return list(self.v)

    def _ew(self, o, f):
        if isinstance(o, (Arr, list, tuple)):
            o = list(o)
            if len(o) != len(self.v):
                if len(o) == 1:
                    o = o * len(self.v)
                elif len(self.v) == 1:
                    return Arr([f(self.v[0], b) for b in o])
                else:
                    raise ValueError(
                        f"operands could not be broadcast together with shapes ({len(self.v)},) ({len(o)},)"
                    )
            return Arr([f(a, b) for a, b in zip(self.v, o)])
        return Arr([f(a, o) for a in self.v])

    def _keep_int(self, o, r):
        if self.dtype is int and (isinstance(o, (int, SymInt)) and not isinstance(o, bool) or (isinstance(o, Arr) and o.dtype is int)):
            r.dtype = int
        return r

    def __add__(self, o):
        return self._keep_int(o, self._ew(o, lambda a, b: a + b))

    __radd__ = __add__

    def __sub__(self, o):
        return self._ew(o, lambda a, b: a - b)

    def __rsub__(self, o):
        return self._ew(o, lambda a, b: b - a)

    def __mul__(self, o):
        return self._ew(o, lambda a, b: a * b)

    __rmul__ = __mul__

    def __truediv__(self, o):
        return self._ew(o, _div)

    def __rtruediv__(self, o):
        return self._ew(o, lambda a, b: _div(b, a))

    def __iadd__(self, o):
        self.v = (self + o).v
        return self

    def __isub__(self, o):
        self.v = (self - o).v
        return self

    def __imul__(self, o):
        self.v = (self * o).v
        return self

    def __itruediv__(self, o):
        if self.dtype is int:
            raise core.emulated(TypeError("Cannot cast ufunc 'divide' output from dtype('float64') to dtype('int64') with casting rule 'same_kind'"))
        self.v = (self / o).v
        return self

    def __eq__(self, o):
        return self._ew(o, lambda a, b: a == b)

    def __ne__(self, o):
        return self._ew(o, lambda a, b: a != b)

    def __lt__(self, o):
        return self._ew(o, lambda a, b: a < b)

    def __le__(self, o):
        return self._ew(o, lambda a, b: a <= b)

    def __gt__(self, o):
        return self._ew(o, lambda a, b: a > b)

    def __ge__(self, o):
        return self._ew(o, lambda a, b: a >= b)

    __hash__ = None

    def sum(self, axis=None):
        return sum_(self.v)

    def __neg__(self):
        return Arr([-a for a in self.v], self.dtype)

    def __abs__(self):
        return Arr([abs(a) for a in self.v], self.dtype)

    def __pow__(self, k):
        return Arr([a ** k for a in self.v], self.dtype)

    def __bool__(self):
        if len(self.v) == 1:
            return bool(_truth(self.v[0]))
        raise core.emulated(ValueError("The truth value of an array with more than one element is ambiguous. Use a.any() or a.all()"))

    def __invert__(self):
        return Arr([(not a) if isinstance(a, bool) else ~a for a in self.v], self.dtype)

    def __and__(self, o):
        return self._ew(o, lambda a, b: core.And(a, b))

    def __or__(self, o):
        return self._ew(o, lambda a, b: core.Or(a, b))

    @property
    def size(self):
        return len(self.v)

    ndim = 1

    def copy(self):
        return Arr(self.v, self.dtype)

    def astype(self, t):
        return asarray(list(self.v), dtype=t if t in (int, float) else None) if t in (int, float) else Arr(self.v, self.dtype)

    def all(self):
        return all_(self)

    def any(self):
        return any_(self)

    def max(self):
        return max_(self)

    def min(self):
        return min_(self)

    def argmax(self):
        return argmax(self)

    def argmin(self):
        return argmin(self)

    def cumsum(self):
        return cumsum(self)

    def mean(self):
        return mean(self)

    def prod(self):
        return prod(self)

    def nonzero(self):
        return (flatnonzero(self),)

    def fill(self, x):
        self.v = [self._cast(x)] * len(self.v)

    def __repr__(self):
        return f"Arr({self.v})"


def _to_float_items(a, dtype=None):
    out = []
    for x in a:
        if is_sym(x) or x is NAN or isinstance(x, bool):
            out.append(x)
        elif dtype is int:
            out.append(int(x))
        elif dtype is float and isinstance(x, int):
            out.append(float(x))
        else:
            out.append(x)
    return out


def _infer_dtype(a):
    if len(a) > 0 and all((isinstance(x, int) and not isinstance(x, bool)) or isinstance(x, SymInt) for x in a):
        return int
    return float


def asarray(a, dtype=None):
    if isinstance(a, Arr):
        return a
    if isinstance(a, _real_np.ndarray):
        a = a.tolist()
    if isinstance(a, range):
        a = list(a)
    if isinstance(a, (list, tuple)):
        dt = dtype if dtype in (int, float) else _infer_dtype(a)
        return Arr(_to_float_items(a, dt), dt)
    raise core.Unsupported(f"asarray of {type(a)}")


def array(a, dtype=None, copy=True):
    """numpy.array copies its argument (numpy.asarray does not): in-place operations on the result leave the source alone"""
    r = asarray(a, dtype)
    if r is a and copy:
        return Arr(list(r.v), r.dtype)
    return r


def sum_(a, axis=None, dtype=None):
    if isinstance(a, Arr):
        a = a.v
    total = 0
    first = True
    for x in a:
        if x is NAN:
            return NAN
        if first:
            total = x
            first = False
        else:
            total = total + x
    if first:
        return F64(0.0)
    if isinstance(total, float):
        return F64(total)
    return total


class F64(float):
    """np.float64 stand-in: a float that accepts `list / x` like numpy scalars do"""

    def __rtruediv__(self, o):
        if isinstance(o, (list, tuple)):
            return Arr(list(o)) / float(self)
        return float.__rtruediv__(self, o)

    def __deepcopy__(self, memo):
        return self


def _truth(x):
    """numpy truthiness of an array element: non-zero"""
    if isinstance(x, (bool, SymBool)):
        return x
    if x is NAN:
        return True
    return x != 0


def all_(a):
    if isinstance(a, Arr):
        a = a.v
    elif isinstance(a, (bool, SymBool)):
        return a
    elif is_sym(a) or is_number(a):
        return _truth(a)
    return core.And(*[_truth(x) for x in a])


def any_(a):
    if isinstance(a, Arr):
        a = a.v
    elif isinstance(a, (bool, SymBool)):
        return a
    elif is_sym(a) or is_number(a):
        return _truth(a)
    return core.Or(*[_truth(x) for x in a])


class LogVal:
    """log(x) for x >= 0, kept as x."""

    __slots__ = ("x",)

    def __init__(self, x):
        self.x = x

    def __deepcopy__(self, memo):
        return self

    def __add__(self, o):
        if isinstance(o, LogVal):
            return LogVal(self.x * o.x)
        if is_number(o) and o == 0:
            return self
        raise core.Unsupported("LogVal + non-log value")

    __radd__ = __add__

    def __neg__(self):
        # only -inf / +inf make sense here
        raise core.Unsupported("negation of a log value")

    def __eq__(self, o):
        if isinstance(o, LogVal):
            return self.x == o.x
        return False

    def __ne__(self, o):
        r = self.__eq__(o)
        return core.Not(r)

    __hash__ = None

    def __repr__(self):
        return f"log({self.x})"


class _Inf:
    def __neg__(self):
        return LogVal(0.0)

    def __repr__(self):
        return "inf"


inf = _Inf()
pi = math.pi


def log(x):
    if isinstance(x, LogVal):
        raise core.Unsupported("log of log")
    if x is NAN:
        raise core.Unsupported("log of nan")
    return LogVal(x)


def exp(x):
    if isinstance(x, LogVal):
        return x.x
    if is_number(x):
        return math.exp(x)
    raise core.Unsupported("exp of a non-log symbolic value")


def isinf(x):
    if isinstance(x, LogVal):
        return x.x == 0
    if is_number(x):
        return math.isinf(x)
    return False


def sqrt(x):
    if is_number(x):
        return math.sqrt(x)
    raise core.Unsupported("sqrt of a symbolic value")


def round_(x, n=0):
    if isinstance(x, (Arr, list, tuple)):
        return Arr([round_(v, n) for v in _items(x)])
    if is_number(x):
        return round(x, n)
    if isinstance(x, SymReal):
        return round(x, n)
    return x


def isclose(a, b, rtol=1e-05, atol=1e-08):
    """numpy.isclose on scalars: |a - b| <= atol + rtol * |b|"""
    d, tol = abs(a - b), atol + rtol * abs(b)
    if core.is_sym(d) or core.is_sym(tol):
        # floats decide the comparison at the very boundary differently from reals: the clearly-close and the clearly-far
        # region are explored as paths of their own, so that a counter-example found there replays on the plain package
        c = core.ctx()
        way = c.choose([d * 2 <= tol, core.And(d * 2 > tol, d < tol * 2), d >= tol * 2], label="isclose: clearly close / boundary band / clearly far")
        if way == 0:
            return True
        if way == 2:
            return False
    r = d <= tol
    return r


def _n(n):
    if isinstance(n, (tuple, list)):
        if len(n) != 1:
            raise core.Unsupported("multi-dimensional arrays are not modelled by the shim")
        n = n[0]
    return n.__index__() if isinstance(n, SymInt) else int(n)


def zeros(n, dtype=float):
    dt = int if dtype is int else float
    return Arr([0 if dt is int else 0.0] * _n(n), dt)


def ones(n, dtype=float):
    dt = int if dtype is int else float
    return Arr([1 if dt is int else 1.0] * _n(n), dt)


def full(n, x, dtype=None):
    return Arr([x] * _n(n), int if dtype is int else float)


def zeros_like(a, dtype=None):
    return zeros(len(asarray(a)), dtype if dtype is not None else asarray(a).dtype)


def ones_like(a, dtype=None):
    return ones(len(asarray(a)), dtype if dtype is not None else asarray(a).dtype)


def full_like(a, x, dtype=None):
    return full(len(asarray(a)), x, dtype)


def empty(n, dtype=float):
    return zeros(n, dtype)


def arange(*a):
    return Arr(list(range(*[_n(x) for x in a])), int)


def _items(a):
    if isinstance(a, Arr):
        return list(a.v)
    if isinstance(a, _real_np.ndarray):
        return a.tolist()
    if isinstance(a, (list, tuple, range)):
        return list(a)
    return [a]


def cumsum(a, axis=None, dtype=None, out=None):
    res, t = [], None
    for x in _items(a):
        t = x if t is None else t + x
        res.append(t)
    r = Arr(res, asarray(list(_items(a))).dtype if len(res) else float)
    if out is not None:
        # numpy writes the result into `out` (which may be the input itself) and returns it
        if not isinstance(out, Arr) or len(out.v) != len(res):
            raise core.Unsupported("cumsum(out=...) with another shape / type")
        out.v[:] = r.v
        return out
    return r


def prod(a, axis=None, dtype=None):
    t = 1.0
    for x in _items(a):
        t = t * x
    return t


def mean(a, axis=None, dtype=None):
    xs = _items(a)
    return _div(sum_(xs), len(xs))


def _pick(xs, better):
    """index of the extreme element; comparisons on symbolic values fork (first extreme wins, as numpy)"""
    if not xs:
        raise core.emulated(ValueError("attempt to get argmax of an empty sequence"))
    b = 0
    for k in range(1, len(xs)):
        if xs[k] is NAN or xs[b] is NAN:
            raise core.Unsupported("extreme of an array containing nan")
        if better(xs[k], xs[b]):
            b = k
    return b


def argmax(a, axis=None):
    return _pick(_items(a), lambda x, y: x > y)


def argmin(a, axis=None):
    return _pick(_items(a), lambda x, y: x < y)


def max_(a, *more):
    if more:
        raise core.Unsupported("np.max with axis")
    xs = _items(a)
    return xs[argmax(xs)]


def min_(a, *more):
    if more:
        raise core.Unsupported("np.min with axis")
    xs = _items(a)
    return xs[argmin(xs)]


def abs_(a):
    if isinstance(a, (Arr, list, tuple, _real_np.ndarray)):
        return Arr([abs(x) for x in _items(a)])
    return abs(a)


def maximum(a, b):
    f = lambda x, y: x if not is_sym(x) and not is_sym(y) and x >= y else (y if not is_sym(x) and not is_sym(y) else core.Ite(x >= y, x, y))
    if isinstance(a, (Arr, list, tuple)) or isinstance(b, (Arr, list, tuple)):
        A = asarray(a) if isinstance(a, (Arr, list, tuple)) else asarray([a])
        return A._ew(b if not isinstance(b, (list, tuple)) else list(b), f)
    return f(a, b)


def minimum(a, b):
    f = lambda x, y: x if not is_sym(x) and not is_sym(y) and x <= y else (y if not is_sym(x) and not is_sym(y) else core.Ite(x <= y, x, y))
    if isinstance(a, (Arr, list, tuple)) or isinstance(b, (Arr, list, tuple)):
        A = asarray(a) if isinstance(a, (Arr, list, tuple)) else asarray([a])
        return A._ew(b if not isinstance(b, (list, tuple)) else list(b), f)
    return f(a, b)


def clip(a, lo, hi):
    r = a
    if lo is not None:
        r = maximum(r, lo)
    if hi is not None:
        r = minimum(r, hi)
    return r


def where(cond, *xy):
    if not xy:
        return (flatnonzero(cond),)
    x, y = xy
    cs = _items(cond)
    xs = _items(x) if isinstance(x, (Arr, list, tuple, _real_np.ndarray)) else [x] * len(cs)
    ys = _items(y) if isinstance(y, (Arr, list, tuple, _real_np.ndarray)) else [y] * len(cs)
    out = []
    for c, a, b in zip(cs, xs, ys):
        t = _truth(c)
        out.append(a if (t is True or (not isinstance(t, SymBool) and bool(t))) else (b if not isinstance(t, SymBool) else (a if bool(t) else b)))
    return Arr(out)


def flatnonzero(a):
    return Arr([k for k, x in enumerate(_items(a)) if bool(_truth(x))], int)


def count_nonzero(a):
    return len(flatnonzero(a))


def isnan(a):
    if isinstance(a, (Arr, list, tuple, _real_np.ndarray)):
        return Arr([isnan(x) for x in _items(a)])
    if a is NAN:
        return True
    if is_sym(a):
        return False
    return a != a


def isfinite(a):
    if isinstance(a, (Arr, list, tuple, _real_np.ndarray)):
        return Arr([isfinite(x) for x in _items(a)])
    if a is NAN:
        return False
    if is_sym(a):
        return True
    return math.isfinite(a)


def concatenate(arrs, axis=0):
    out = []
    for a in arrs:
        out.extend(_items(a))
    return asarray(out)


def append(a, x):
    return asarray(_items(a) + _items(x))


def dot(a, b):
    xs, ys = _items(a), _items(b)
    if len(xs) != len(ys):
        raise core.emulated(ValueError(f"shapes ({len(xs)},) and ({len(ys)},) not aligned"))
    return sum_([x * y for x, y in zip(xs, ys)])


def array_equal(a, b):
    xs, ys = _items(a), _items(b)
    if len(xs) != len(ys):
        return False
    return core.And(*[x == y for x, y in zip(xs, ys)]) if xs else True


def allclose(a, b, rtol=1e-05, atol=1e-08):
    xs, ys = _items(a), _items(b)
    if len(ys) == 1:
        ys = ys * len(xs)
    if len(xs) == 1:
        xs = xs * len(ys)
    return core.And(*[isclose(x, y, rtol, atol) for x, y in zip(xs, ys)]) if xs else True


def searchsorted(a, v, side="left", sorter=None):
    xs = _items(a)
    for k, x in enumerate(xs):
        if (v <= x) if side == "left" else (v < x):
            return k
    return len(xs)


def float64(x=0.0):
    if is_sym(x) or x is NAN:
        return x
    return F64(float(x))


def copy_(a):
    return asarray(_items(a)) if not isinstance(a, Arr) else a.copy()


def _stable_order(xs):
    """indices of xs in ascending order, stable; comparisons of symbolic values fork (one path per feasible order)"""
    order = []
    for k in range(len(xs)):
        pos = len(order)
        while pos > 0 and bool(xs[k] < xs[order[pos - 1]]):
            pos -= 1
        order.insert(pos, k)
    return order


def sort(a, axis=-1, kind=None):
    xs = _items(a)
    return asarray([xs[k] for k in _stable_order(xs)])


def argsort(a, axis=-1, kind=None):
    return Arr(_stable_order(_items(a)), int)


GLOBAL_RANDOM_HOOK = [None]  # harnesses install a SymRng here; its use means "the library drew from numpy's global state"


class _Random:
    @staticmethod
    def default_rng(seed=None):
        return _real_np.random.default_rng(seed)

    @staticmethod
    def _hook():
        h = GLOBAL_RANDOM_HOOK[0]
        if h is None:
            raise core.Unsupported("numpy.random.<legacy global function> used and no hook installed")
        return h

    @staticmethod
    def choice(a, size=None, replace=True, p=None):
        return _Random._hook().choice(a, size=size, replace=replace, p=p)

    @staticmethod
    def random(size=None):
        return _Random._hook().random(size)

    @staticmethod
    def rand(*a):
        return _Random._hook().random(None)

    @staticmethod
    def uniform(low=0.0, high=1.0, size=None):
        return _Random._hook().uniform(low, high, size)


class Shim:
    """Object bound to the name `np` inside the rewritten modules."""

    asarray = staticmethod(asarray)
    array = staticmethod(array)
    sum = staticmethod(sum_)
    all = staticmethod(all_)
    any = staticmethod(any_)
    log = staticmethod(log)
    exp = staticmethod(exp)
    isinf = staticmethod(isinf)
    sqrt = staticmethod(sqrt)
    round = staticmethod(round_)
    zeros = staticmethod(zeros)
    ones = staticmethod(ones)
    full = staticmethod(full)
    empty = staticmethod(empty)
    zeros_like = staticmethod(zeros_like)
    ones_like = staticmethod(ones_like)
    full_like = staticmethod(full_like)
    arange = staticmethod(arange)
    cumsum = staticmethod(cumsum)
    prod = staticmethod(prod)
    mean = staticmethod(mean)
    average = staticmethod(mean)
    argmax = staticmethod(argmax)
    argmin = staticmethod(argmin)
    max = staticmethod(max_)
    min = staticmethod(min_)
    amax = staticmethod(max_)
    amin = staticmethod(min_)
    abs = staticmethod(abs_)
    absolute = staticmethod(abs_)
    fabs = staticmethod(abs_)
    maximum = staticmethod(maximum)
    minimum = staticmethod(minimum)
    clip = staticmethod(clip)
    where = staticmethod(where)
    flatnonzero = staticmethod(flatnonzero)
    nonzero = staticmethod(lambda a: (flatnonzero(a),))
    count_nonzero = staticmethod(count_nonzero)
    isnan = staticmethod(isnan)
    isfinite = staticmethod(isfinite)
    concatenate = staticmethod(concatenate)
    hstack = staticmethod(concatenate)
    append = staticmethod(append)
    dot = staticmethod(dot)
    array_equal = staticmethod(array_equal)
    allclose = staticmethod(allclose)
    searchsorted = staticmethod(searchsorted)
    float64 = staticmethod(float64)
    float_ = staticmethod(float64)
    copy = staticmethod(copy_)
    sort = staticmethod(sort)
    argsort = staticmethod(argsort)
    nan = NAN
    bool_ = bool
    isclose = staticmethod(isclose)
    inf = inf
    pi = pi
    random = _Random
    ndarray = Arr
    floating = _real_np.floating
    integer = _real_np.integer


    def __getattr__(self, name):
        # a numpy function the shim does not model must fail loudly, never look like an error of the code under analysis
        raise core.Unsupported(f"numpy.{name} is not modelled by the shim")


np = Shim()
