"""Replay a candidate counter-example against the plain, un-rewritten package
(imported from $PYTHONPATH = <repo>/src) with real numpy and RDKit."""
import importlib
import json
import os
import sys
import warnings

HERE = os.path.dirname(os.path.dirname(os.path.abspath(__file__)))
sys.path.insert(0, HERE)


class ScriptedRng:
    """Answers rng.choice from a list of indices and asserts that numpy would allow each
    answer (probability > 0); everything else is delegated to a real Generator."""

    def __init__(self, picks, seed=0):
        import numpy as np

        self.picks = list(picks)
        self.k = 0
        self.real = np.random.default_rng(seed)
        self.log = []
        self.bad = None

    def choice(self, a, size=None, replace=True, p=None, axis=0, shuffle=True):
        import numpy as np

        items = list(range(a)) if isinstance(a, (int, np.integer)) else list(a)
        if p is not None:
            pv = np.asarray(p, dtype=float)
            # the validation numpy itself performs
            if np.any(np.isnan(pv)):
                raise ValueError("probabilities contain NaN")
            if np.any(pv < 0):
                raise ValueError("probabilities are not non-negative")
            if abs(pv.sum() - 1.0) > 1e-8:
                raise ValueError("probabilities do not sum to 1")
        if self.k >= len(self.picks):
            raise RuntimeError("scripted generator exhausted")
        i = self.picks[self.k]
        self.k += 1
        if i >= len(items):
            self.bad = f"pick {i} out of range {len(items)}"
            raise RuntimeError(self.bad)
        if p is not None and not pv[i] > 0:
            self.bad = f"pick {i} has probability {pv[i]}"
            raise RuntimeError(self.bad)
        self.log.append((i, None if p is None else [float(x) for x in pv]))
        return items[i]

    def __getattr__(self, name):
        return getattr(self.real, name)


def main():
    warnings.simplefilter("ignore")
    path = sys.argv[1]
    with open(path) as fh:
        cand = json.load(fh)
    import gbigsmiles

    src = os.path.dirname(os.path.abspath(gbigsmiles.__file__))
    print(f"plain package: {src}")
    mod = importlib.import_module(f"checks.{cand['check']}")
    try:
        ok, detail = mod.replay(cand["replay"], gbigsmiles)
    except Exception as e:  # a crash of the replay itself is not a reproduction
        import traceback

        print("REPLAY-ERROR", type(e).__name__, e)
        traceback.print_exc()
        print("REPRODUCED: error")
        sys.exit(2)
    print(detail)
    print("REPRODUCED: yes" if ok else "REPRODUCED: no")


if __name__ == "__main__":
    main()
