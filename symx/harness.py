"""Check runner: shards cases over worker processes, merges solver statistics, replays
candidate counter-examples on the plain package, classifies them against the
known-findings file, writes the evidence file and decides the exit code."""
from __future__ import annotations

import hashlib
import importlib
import json
import multiprocessing as mp
import os
import subprocess
import sys
import time
import traceback

HERE = os.path.dirname(os.path.dirname(os.path.abspath(__file__)))
REPO = os.environ.get("GBIGSMILES_REPO", "/repo")
EXIT_OK, EXIT_VIOLATION, EXIT_HARNESS = 0, 1, 3
# runs against another checkout (self-tests with seeded changes) never touch the committed evidence
OUT = HERE if os.path.realpath(REPO) == "/repo" else os.environ.get("VERIF_SCRATCH_OUT", "/tmp/verif-scratch-out")


def jsonable(x, depth=0):
    from fractions import Fraction

    if depth > 8:
        return str(x)
    if isinstance(x, (str, int, bool)) or x is None:
        return x
    if isinstance(x, float):
        if x != x or x in (float("inf"), float("-inf")):
            return str(x)
        return x
    if isinstance(x, Fraction):
        return float(x) if abs(x) < 10**300 else str(x)
    if isinstance(x, dict):
        return {str(k): jsonable(v, depth + 1) for k, v in x.items()}
    if isinstance(x, (list, tuple, set)):
        return [jsonable(v, depth + 1) for v in x]
    return str(x)


class Candidate:
    """A counter-example produced by the solver, to be replayed on the plain package."""

    def __init__(self, prop, signature, what, replay):
        self.prop = prop
        self.signature = signature  # identifies the failing input / call site / history
        self.what = what
        self.replay = replay  # JSON-able dict understood by the check's replay()

    def to_json(self):
        return {"property": self.prop, "signature": self.signature, "what": self.what,
                "replay": jsonable(self.replay)}


class CaseResult:
    def __init__(self, name):
        self.name = name
        self.stats = None
        self.candidates = []
        self.samples = []
        self.notes = []
        self.complete = True
        self.error = None
        self.extra = {}
        self.wall = 0.0


# ---------------------------------------------------------------------------
# worker side

_W = {}


def _worker_init(check_name, tier):
    _W["init_args"] = (check_name, tier)
    _W["init_error"] = None
    try:
        _worker_init2(check_name, tier)
    except BaseException as e:
        _W["init_error"] = f"worker initialisation failed: {type(e).__name__}: {e}\n" + traceback.format_exc(limit=8)


def _worker_init2(check_name, tier):
    import warnings

    warnings.simplefilter("ignore")
    sys.setrecursionlimit(10000)
    if hasattr(sys, "set_int_max_str_digits"):
        sys.set_int_max_str_digits(0)  # exact rationals of solver models can have thousands of digits
    try:
        from rdkit import RDLogger

        RDLogger.DisableLog("rdApp.*")
    except Exception:
        pass
    mod = importlib.import_module(f"checks.{check_name}")
    _W["mod"] = mod
    _W["tier"] = tier
    from . import xcheck

    xcheck.configure(tier)
    if getattr(mod, "NEEDS_PACKAGE", True):
        from . import loader

        _W["pkg"] = loader.load()
    else:
        _W["pkg"] = None


def _worker_run(case):
    mod = _W.get("mod")
    t0 = time.time()
    res = CaseResult(case["name"])
    try:
        if _W.get("init_error"):
            raise RuntimeError(_W["init_error"])
        mod.run_case(case, _W["pkg"], _W["tier"], res)
    except BaseException as e:  # includes symx.Unsupported
        res.error = f"{type(e).__name__}: {e}\n" + traceback.format_exc(limit=12)
    try:
        from . import xcheck

        res.extra["second_solver"] = xcheck.flush()
    except BaseException as e:
        res.extra["second_solver"] = {"error": f"{type(e).__name__}: {e}"}
    res.wall = time.time() - t0
    out = {
        "name": res.name,
        "stats": res.stats.as_dict() if res.stats is not None else None,
        "candidates": [c.to_json() for c in res.candidates],
        "samples": jsonable(res.samples[:3]),
        "notes": res.notes[:20],
        "complete": res.complete,
        "error": res.error,
        "extra": jsonable(res.extra),
        "wall": res.wall,
    }
    return out


# ---------------------------------------------------------------------------
# known findings


def load_known_findings():
    p = os.path.join(HERE, "known_findings.json")
    if not os.path.exists(p):
        return []
    with open(p) as fh:
        return json.load(fh)["findings"]


def match_known(prop, signature, findings):
    for f in findings:
        if f.get("status") != "finding":
            continue  # fixed entries suppress nothing
        if f["property"] == prop and f["signature"] == signature:
            return f
    return None


# ---------------------------------------------------------------------------
# replay on the plain package (fresh process, no loader, real numpy / rdkit)


def replay_file(path, timeout=600):
    env = dict(os.environ)
    env["PYTHONPATH"] = os.path.join(REPO, "src") + os.pathsep + HERE
    env["PYTHONDONTWRITEBYTECODE"] = "1"
    try:
        r = subprocess.run(
            [sys.executable, "-m", "symx.replay", path],
            cwd=HERE, env=env, capture_output=True, text=True, timeout=timeout,
        )
    except subprocess.TimeoutExpired:
        return None, "replay timed out"
    out = r.stdout + r.stderr
    if "REPRODUCED: yes" in r.stdout:
        return True, out
    if "REPRODUCED: no" in r.stdout:
        return False, out
    return None, out


# ---------------------------------------------------------------------------


def run_check(check_name, tier="quick", jobs=None, only=None):
    t0 = time.time()
    mod = importlib.import_module(f"checks.{check_name}")
    prop = mod.PROPERTY
    seed = int(os.environ.get("VERIF_SEED", "0") or 0)
    cases = mod.cases(tier)
    if only:
        cases = [c for c in cases if only in c["name"]]
    if seed:
        import random

        random.Random(seed).shuffle(cases)
    jobs = jobs or int(os.environ.get("VERIF_JOBS", "16"))
    jobs = max(1, min(jobs, len(cases)))
    results = []
    if jobs == 1:
        _worker_init(check_name, tier)
        for c in cases:
            results.append(_worker_run(c))
    else:
        # ProcessPoolExecutor notices a worker that dies (segfault in a C extension, OOM kill): the cases that were
        # not finished are reported as harness errors instead of hanging the check
        from concurrent.futures import ProcessPoolExecutor, as_completed
        from concurrent.futures.process import BrokenProcessPool

        ctxm = mp.get_context("fork")
        pending = list(cases)
        attempt = 0
        while pending and attempt < 3:
            attempt += 1
            done_names = set()
            try:
                with ProcessPoolExecutor(max_workers=min(jobs, len(pending)), mp_context=ctxm, initializer=_worker_init,
                                         initargs=(check_name, tier)) as ex:
                    futs = {ex.submit(_worker_run, c): c for c in pending}
                    for f in as_completed(futs):
                        r = f.result()
                        results.append(r)
                        done_names.add(r["name"])
            except BrokenProcessPool:
                pass
            pending = [c for c in pending if c["name"] not in done_names]
            if pending and attempt >= 2:
                # second failure: run the remaining cases one per fresh process to isolate the crashing one
                for c in pending:
                    try:
                        with ProcessPoolExecutor(max_workers=1, mp_context=ctxm, initializer=_worker_init, initargs=(check_name, tier)) as ex1:
                            results.append(ex1.submit(_worker_run, c).result())
                    except BrokenProcessPool:
                        results.append({"name": c["name"], "stats": None, "candidates": [], "samples": [], "notes": [], "complete": False,
                                        "error": "worker process died while running this case (crash of a C extension or out of memory)",
                                        "extra": {}, "wall": 0.0})
                pending = []
    results.sort(key=lambda r: r["name"])

    # merge
    from .core import Stats

    total = Stats()
    errors = []
    candidates = []
    samples = []
    incomplete = []
    per_case = []
    from . import xcheck

    second = {}
    for r in results:
        xcheck.merge(second, (r.get("extra") or {}).get("second_solver"))
        if r["error"]:
            errors.append((r["name"], r["error"]))
        if r["stats"]:
            s = Stats()
            s.__dict__.update(r["stats"])
            total.merge(s)
        if not r["complete"]:
            incomplete.append(r["name"])
        for c in r["candidates"]:
            c["case"] = r["name"]
            candidates.append(c)
        for s in r["samples"][:2]:
            if len(samples) < 12:
                samples.append({"case": r["name"], "sample": s})
        per_case.append({
            "case": r["name"], "paths": (r["stats"] or {}).get("paths", 0),
            "obligations": (r["stats"] or {}).get("obligations", 0),
            "discharged": (r["stats"] or {}).get("discharged", 0),
            "complete": r["complete"], "wall_s": round(r["wall"], 2),
            "exceptions": (r["stats"] or {}).get("exceptions", {}),
            "extra": r["extra"],
        })

    # classify candidates: replay, then known finding or violation
    findings = load_known_findings()
    violations = []
    known_hits = {}
    harness_errors = []
    seen_sig = {}
    os.makedirs(os.path.join(OUT, "replays", prop), exist_ok=True)
    for c in candidates:
        sig = c["signature"]
        if sig in seen_sig:
            seen_sig[sig]["count"] += 1
            # an over-approximating model (rounding formats, pinned representatives) can hand out a first candidate that does
            # not replay although a later one of the same signature does: a few more are tried before the signature is given up
            if seen_sig[sig]["reproduced"] is True or seen_sig[sig].get("tries", 1) >= 6:
                continue
            seen_sig[sig]["tries"] = seen_sig[sig].get("tries", 1) + 1
            first = seen_sig[sig]
        else:
            first = None
        blob = json.dumps(c, sort_keys=True)
        h = hashlib.sha256(blob.encode()).hexdigest()[:12]
        path = os.path.join(OUT, "replays", prop, f"{check_name}-{h}.json")
        with open(path, "w") as fh:
            json.dump({"check": check_name, **c}, fh, indent=1)
        ok, out = replay_file(path)
        entry = {"candidate": c, "path": path, "count": 1, "reproduced": ok, "replay_output": out[-1500:]}
        if first is not None:
            if ok is not True:
                continue
            entry["count"], entry["tries"] = first["count"], first["tries"]
            harness_errors.remove(first)
        seen_sig[sig] = entry
        if ok is True:
            kf = match_known(prop, sig, findings)
            if kf is not None:
                known_hits[sig] = (kf, entry)
            else:
                violations.append(entry)
        else:
            harness_errors.append(entry)

    # vacuity: every required label must have been reached
    missing = []
    for lab in getattr(mod, "REQUIRED_LABELS", []):
        if total.labels.get(lab, [0, 0])[0] == 0:
            missing.append(lab)

    wall = time.time() - t0
    from . import loader

    n_viol = len(violations)
    evidence = {
        "property_id": prop,
        "tier": tier,
        "seed": seed,
        "level": "other",
        "coverage": {
            "explanation": mod.EXPLANATION,
            "technique": "bounded symbolic execution of the repository's own functions (symx: z3 proxy values on CPython, "
                         "DFS over solver-decided branches with replay); each obligation is z3's verdict on pc /\\ not(phi)",
            "functions_encoded": getattr(mod, "FUNCTIONS", []),
            "bounds": mod.bounds(tier) if hasattr(mod, "bounds") else {},
            "outside_bounds": getattr(mod, "OUTSIDE", []),
            "evaluations": total.paths,
            "distinct_nontrivial": total.paths_nontrivial,
            "rule": "one evaluation = one feasible execution path of the harness (distinct by construction: DFS flips exactly "
                    "one solver-decided branch per path); non-trivial = its path condition contains at least one decision on a symbolic value",
            "obligations": total.obligations,
            "discharged": total.discharged,
            "inconclusive": total.inconclusive,
            "obligations_by_label": {k: {"reached": v[0], "discharged": v[1]} for k, v in sorted(total.labels.items())},
            "branch_feasibility_queries": total.branch_queries,
            "assertion_queries": total.prove_queries,
            "unknown_branch_answers": total.unknown_branches,
            "solver": "z3 " + _z3_version(),
            "solver_time_s": round(total.solver_s, 2),
            "paths_ending_in_exception": total.exceptions,
            "infeasible_paths_pruned": total.aborted,
            "caps_hit": sorted(set(total.caps)),
            "exhaustive": (not incomplete) and not errors and not total.caps,
            "incomplete_cases": incomplete,
            "cases": per_case[:80],
            "n_cases": len(per_case),
            "samples": samples if samples else [{"note": "no sample recorded"}],
            "candidates": len(candidates),
            "known_findings_hit": sorted(known_hits),
            "not_reproduced": len(harness_errors),
            "missing_required_labels": missing,
            "second_solver": {
                "what": "a sample of the assertion queries (the first few per obligation label and case) re-discharged as SMT-LIB2 by "
                        "independent solver binaries; agree = same sat/unsat verdict as the in-process z3",
                "queries_cross_checked": second.get("queries", 0),
                "per_solver": second.get("solvers", {}),
                "disagreements": second.get("disagreements", []),
            },
            "source_sha256_16": _hash_sources(),
            "jobs": jobs,
        },
        "assumptions": getattr(mod, "ASSUMPTIONS", []),
        "wall_s": round(wall, 2),
        "violations": n_viol,
    }
    if hasattr(mod, "finish"):
        mod.finish(evidence, results, tier)
    os.makedirs(os.path.join(OUT, "evidence"), exist_ok=True)
    with open(os.path.join(OUT, "evidence", f"{prop}.json"), "w") as fh:
        json.dump(jsonable(evidence), fh, indent=1)

    # report
    print(f"[{prop}] tier={tier} cases={len(cases)} paths={total.paths} nontrivial={total.paths_nontrivial} "
          f"obligations={total.obligations} discharged={total.discharged} inconclusive={total.inconclusive} "
          f"z3={total.solver_s:.1f}s wall={wall:.1f}s exhaustive={evidence['coverage']['exhaustive']}")
    for sig, (kf, entry) in sorted(known_hits.items()):
        print(f"KNOWN-FINDING: property={prop} {kf['what']} [{sig}] replay={entry['path']}")
    code = EXIT_OK
    for name, err in errors:
        print(f"HARNESS-ERROR: case {name}: {err}")
        code = EXIT_HARNESS
    for entry in harness_errors:
        print(f"HARNESS-ERROR: candidate did not reproduce on the plain package: {entry['candidate']['signature']} "
              f"({entry['candidate']['what']}) replay={entry['path']}\n{entry['replay_output'][-600:]}")
        code = EXIT_HARNESS
    if missing:
        print(f"HARNESS-ERROR: vacuity guard: obligations never reached: {missing}")
        code = EXIT_HARNESS
    if total.inconclusive:
        print(f"NOTE: {total.inconclusive} obligations inconclusive (solver unknown)")
    ndis = sum(st.get("disagree", 0) for st in second.get("solvers", {}).values())
    print(f"second solver: {second.get('queries', 0)} assertion queries re-discharged; " + "; ".join(
        f"{n}: agree={st.get('agree', 0)} disagree={st.get('disagree', 0)} unknown={st.get('unknown', 0)} error={st.get('error', 0)}"
        for n, st in sorted(second.get("solvers", {}).items())))
    if ndis:
        print(f"NOTE: {ndis} second-solver disagreements: those obligations are inconclusive (see evidence second_solver.disagreements)")
    if incomplete:
        print(f"NOTE: exploration incomplete (cap reached) in: {incomplete[:8]}")
    for entry in violations:
        print(f"VIOLATION property={prop} replay={entry['path']}")
        print(f"  what: {entry['candidate']['what']}  signature={entry['candidate']['signature']} (x{entry['count']})")
        code = EXIT_VIOLATION if code != EXIT_HARNESS else code
    if violations and code == EXIT_HARNESS:
        code = EXIT_VIOLATION
    return code


def _z3_version():
    import z3

    return z3.get_version_string()


def _hash_sources():
    out = {}
    root = os.path.join(REPO, "src", "gbigsmiles")
    for f in sorted(os.listdir(root)):
        if f.endswith(".py"):
            with open(os.path.join(root, f), "rb") as fh:
                out[f"src/gbigsmiles/{f}"] = hashlib.sha256(fh.read()).hexdigest()[:16]
    return out
