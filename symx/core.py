"""symx core: symbolic execution of ordinary Python functions with z3 proxy values.

The function under analysis runs on CPython.  Some of its inputs are proxy objects
(SymBool / SymInt / SymReal) that carry z3 terms.  Control flow meets a symbolic
value only in SymBool.__bool__ (and SymInt.__index__); there the engine consults
the solver, takes a feasible side and records whether the other side is open.  When
the function finishes the engine flips the deepest open decision and re-executes
the function from the start (DFS with replay).  Assertions are discharged with
`prove`: z3 is asked for pc /\\ not(phi); unsat = holds for every value on this path.
"""
from __future__ import annotations

import operator as _op
import time
import traceback
from fractions import Fraction

import z3

# ----------------------------------------------------------------------------
# exceptions used for path steering (BaseException so that `except Exception`
# in the code under analysis cannot swallow them)


from . import xcheck as _xcheck  # noqa: E402


class PathAbort(BaseException):
    """Abandon the current path (infeasible assumption or cap)."""


class Infeasible(PathAbort):
    pass


class CapReached(PathAbort):
    pass


class Unsupported(BaseException):
    """The proxies cannot model an operation: loud failure, never a silent guess."""


class HarnessBug(BaseException):
    """An exception raised by the harness' own code (not by the code under analysis)."""


def emulated(exc):
    """tag an exception that a stub raises on purpose to emulate the real library"""
    exc._sx_emulated = True
    return exc


_VERIF_ROOT = __file__.rsplit("/symx/", 1)[0] + "/"


_PROXY_NAMES = ("SymStr", "SymReal", "SymInt", "SymBool", "SymChar", "SymEnum", "LogVal", "_NaN", "Arr", "Num", "F64", "SymRng", "FixedRng", "Poly")


def _raised_by_harness(e):
    if getattr(e, "_sx_emulated", False):
        return False
    if isinstance(e, (TypeError, AttributeError)):
        # a C-level function rejected a proxy object ("expected str instance, SymStr found", "'Arr' object has no attribute ..."):
        # a limit of the proxies, never a verdict of the code under analysis
        import re as _re

        if _re.search(r"\b(" + "|".join(_PROXY_NAMES) + r")\b", str(e)):
            return True
    tb = e.__traceback__
    last = None
    while tb is not None:
        last = tb
        tb = tb.tb_next
    if last is None:
        return False
    return last.tb_frame.f_code.co_filename.startswith(_VERIF_ROOT)


def reraise_if_harness(e):
    """call inside `except Exception as e` of a harness: a failure of the proxies / harness
    itself must never be mistaken for a rejection by the code under analysis"""
    if _raised_by_harness(e):
        raise HarnessBug(f"{type(e).__name__}: {e}\n{traceback.format_exc(limit=8)}") from e


class Counterexample(BaseException):
    def __init__(self, label, model_values, detail=None):
        super().__init__(label)
        self.label = label
        self.model_values = model_values
        self.detail = detail


# ----------------------------------------------------------------------------

_CTX = None  # the active exploration context


def ctx():
    if _CTX is None:
        raise Unsupported("symbolic value used outside of an exploration")
    return _CTX


def have_ctx():
    return _CTX is not None


def _frac(x):
    if isinstance(x, bool):
        return Fraction(int(x))
    if isinstance(x, int):
        return Fraction(x)
    if isinstance(x, float):
        if x != x or x in (float("inf"), float("-inf")):
            raise Unsupported(f"non-finite float {x} meets a symbolic value")
        return Fraction(x)
    if isinstance(x, Fraction):
        return x
    try:
        import numpy as _np

        if isinstance(x, _np.floating):
            return Fraction(float(x))
        if isinstance(x, _np.integer):
            return Fraction(int(x))
    except ImportError:  # pragma: no cover
        pass
    raise TypeError(f"not a number: {x!r}")


def realval(x):
    f = _frac(x)
    if f.denominator == 1:
        return z3.RealVal(f.numerator)
    return z3.RealVal(f"{f.numerator}/{f.denominator}")


def is_number(x):
    if isinstance(x, (int, float, Fraction)):
        return True
    try:
        import numpy as _np

        return isinstance(x, (_np.floating, _np.integer))
    except ImportError:  # pragma: no cover
        return False


# ----------------------------------------------------------------------------
# proxies


class SymBool:
    __slots__ = ("e",)

    def __init__(self, e):
        self.e = e

    def __bool__(self):
        return ctx().branch(self.e)

    def __deepcopy__(self, memo):
        return self

    def __copy__(self):
        return self

    def __and__(self, o):
        return SymBool(z3.And(self.e, _b(o)))

    __rand__ = __and__

    def __or__(self, o):
        return SymBool(z3.Or(self.e, _b(o)))

    __ror__ = __or__

    def __invert__(self):
        return SymBool(z3.Not(self.e))

    def __eq__(self, o):
        if isinstance(o, (bool, SymBool)):
            return SymBool(self.e == _b(o))
        return False

    def __ne__(self, o):
        if isinstance(o, (bool, SymBool)):
            return SymBool(self.e != _b(o))
        return True

    __hash__ = None

    def __repr__(self):
        return f"SymBool({self.e})"


def _b(x):
    if isinstance(x, SymBool):
        return x.e
    if isinstance(x, bool):
        return z3.BoolVal(x)
    if z3.is_bool(x):
        return x
    raise TypeError(f"not a boolean: {x!r}")


def And(*xs):
    xs = [x for x in xs if x is not True]
    if any(x is False for x in xs):
        return False
    if not xs:
        return True
    return SymBool(z3.And(*[_b(x) for x in xs]))


def Or(*xs):
    xs = [x for x in xs if x is not False]
    if any(x is True for x in xs):
        return True
    if not xs:
        return False
    return SymBool(z3.Or(*[_b(x) for x in xs]))


def Not(x):
    if isinstance(x, bool):
        return not x
    return SymBool(z3.Not(_b(x)))


def Implies(a, b):
    return Or(Not(a), b)


def Ite(c, a, b):
    """if-then-else on numbers without forking."""
    if isinstance(c, bool):
        return a if c else b
    a, b = _real(a), _real(b)
    n = Poly.atom(z3.If(_b(c), a.n.z3(), b.n.z3()))
    if a.d is None and b.d is None:
        return SymReal(n)
    ad = a.d if a.d is not None else _ONE
    bd = b.d if b.d is not None else _ONE
    d = Poly.atom(z3.If(_b(c), ad.z3(), bd.z3()))
    if _CTX is not None:
        for m in d.t:
            for aid, _ in m:
                _CTX.positive.add(aid)
    return SymReal(n, d)


class SymInt:
    __slots__ = ("e",)

    def __init__(self, e):
        self.e = e

    def __deepcopy__(self, memo):
        return self

    def __copy__(self):
        return self

    # -- concretisation
    def __index__(self):
        return ctx().concretise_int(self.e)

    def __int__(self):
        return self.__index__()

    def __hash__(self):
        return hash(self.__index__())

    def __bool__(self):
        return ctx().branch(self.e != 0)

    def _bin(self, o, f, rf=False):
        if isinstance(o, SymInt):
            return SymInt(f(o.e, self.e) if rf else f(self.e, o.e))
        if isinstance(o, bool):
            o = int(o)
        if isinstance(o, int):
            return SymInt(f(z3.IntVal(o), self.e) if rf else f(self.e, z3.IntVal(o)))
        return NotImplemented

    def __add__(self, o):
        if isinstance(o, (float, Fraction, SymReal)):
            return _real(self) + o
        return self._bin(o, lambda a, b: a + b)

    def __radd__(self, o):
        if isinstance(o, (float, Fraction)):
            return _real(o) + _real(self)
        return self._bin(o, lambda a, b: a + b, True)

    def __sub__(self, o):
        if isinstance(o, (float, Fraction, SymReal)):
            return _real(self) - o
        return self._bin(o, lambda a, b: a - b)

    def __rsub__(self, o):
        if isinstance(o, (float, Fraction)):
            return _real(o) - _real(self)
        return self._bin(o, lambda a, b: a - b, True)

    def __mul__(self, o):
        if isinstance(o, (float, Fraction, SymReal)):
            return _real(self) * o
        return self._bin(o, lambda a, b: a * b)

    def __rmul__(self, o):
        if isinstance(o, (float, Fraction)):
            return _real(o) * _real(self)
        return self._bin(o, lambda a, b: a * b, True)

    def __truediv__(self, o):
        return _real(self) / o

    def __rtruediv__(self, o):
        return _real(o) / _real(self)

    def __neg__(self):
        return SymInt(-self.e)

    def __pos__(self):
        return self

    def __abs__(self):
        return SymInt(z3.If(self.e >= 0, self.e, -self.e))

    def _cmp(self, o, op):
        f = _OPS[op]
        if isinstance(o, SymInt):
            return SymBool(f(self.e, o.e))
        if isinstance(o, bool):
            o = int(o)
        if isinstance(o, int):
            return SymBool(f(self.e, z3.IntVal(o)))
        if isinstance(o, (float, Fraction, SymReal)):
            return _real(self)._cmp(o, op)
        return NotImplemented

    def __lt__(self, o):
        return self._cmp(o, "<")

    def __le__(self, o):
        return self._cmp(o, "<=")

    def __gt__(self, o):
        return self._cmp(o, ">")

    def __ge__(self, o):
        return self._cmp(o, ">=")

    def __eq__(self, o):
        r = self._cmp(o, "==")
        if r is NotImplemented and type(o).__name__ == "Arr":
            return NotImplemented  # scalar == array: the array's reflected, element-wise comparison answers
        return False if r is NotImplemented else r

    def __ne__(self, o):
        r = self._cmp(o, "!=")
        if r is NotImplemented and type(o).__name__ == "Arr":
            return NotImplemented
        return True if r is NotImplemented else r

    def __repr__(self):
        return f"SymInt({self.e})"


# ----------------------------------------------------------------------------
# polynomials over "atoms" (z3 Real terms: variables or opaque terms such as If / ToReal).
# SymReal arithmetic happens on these in Python; z3 terms are built only when a comparison
# has to be decided.  Equal normal forms are equal polynomials, so identities such as
# p_i * sum(w) == w_i reach z3 already simplified.

_ATOMS = {}  # ast id -> z3 term (kept alive so that ids stay stable)


def _atom_id(e):
    i = e.get_id()
    if i not in _ATOMS:
        _ATOMS[i] = e
    return i


class Poly:
    __slots__ = ("t", "_z")

    def __init__(self, t):
        self.t = t  # {monomial: Fraction}; monomial = tuple of (atom id, power) sorted; () = constant
        self._z = None

    @staticmethod
    def const(c):
        c = _frac(c)
        return Poly({(): c} if c != 0 else {})

    @staticmethod
    def atom(e):
        e = z3.simplify(e) if not z3.is_const(e) else e
        if z3.is_rational_value(e):
            return Poly.const(Fraction(e.numerator_as_long(), e.denominator_as_long()))
        return Poly({((_atom_id(e), 1),): Fraction(1)})

    def is_const(self):
        return not self.t or (len(self.t) == 1 and () in self.t)

    def const_value(self):
        return self.t.get((), Fraction(0))

    def is_zero(self):
        return not self.t

    def key(self):
        return frozenset(self.t.items())

    def same(self, o):
        return self.t == o.t

    def __add__(self, o):
        if not o.t:
            return self
        if not self.t:
            return o
        t = dict(self.t)
        for m, c in o.t.items():
            v = t.get(m, 0) + c
            if v == 0:
                t.pop(m, None)
            else:
                t[m] = v
        return Poly(t)

    def __neg__(self):
        return Poly({m: -c for m, c in self.t.items()})

    def __sub__(self, o):
        return self + (-o)

    def scale(self, k):
        if k == 0:
            return Poly({})
        if k == 1:
            return self
        return Poly({m: c * k for m, c in self.t.items()})

    def __mul__(self, o):
        if not self.t or not o.t:
            return Poly({})
        if o.is_const():
            return self.scale(o.const_value())
        if self.is_const():
            return o.scale(self.const_value())
        t = {}
        for m1, c1 in self.t.items():
            for m2, c2 in o.t.items():
                m = _mono_mul(m1, m2)
                v = t.get(m, 0) + c1 * c2
                if v == 0:
                    t.pop(m, None)
                else:
                    t[m] = v
        return Poly(t)

    def z3(self):
        if self._z is None:
            terms = []
            for m, c in sorted(self.t.items()):
                fs = []
                for aid, pw in m:
                    fs.extend([_ATOMS[aid]] * pw)
                if not fs:
                    terms.append(realval(c))
                else:
                    prod = fs[0]
                    for f in fs[1:]:
                        prod = prod * f
                    terms.append(prod if c == 1 else realval(c) * prod)
            if not terms:
                self._z = z3.RealVal(0)
            elif len(terms) == 1:
                self._z = terms[0]
            else:
                self._z = z3.Sum(terms)
        return self._z

    def sign(self, positive):
        """syntactic sign given the set of atom ids known to be > 0: '+', '-', '0' or None"""
        if not self.t:
            return "0"
        pos = neg = False
        for m, c in self.t.items():
            for aid, pw in m:
                if aid not in positive and pw % 2 == 1:
                    return None
            if c > 0:
                pos = True
            else:
                neg = True
        if pos and not neg:
            return "+"
        if neg and not pos:
            return "-"
        return None

    def __repr__(self):
        return str(z3.simplify(self.z3()))


def _mono_mul(m1, m2):
    if not m1:
        return m2
    if not m2:
        return m1
    d = dict(m1)
    for a, pw in m2:
        d[a] = d.get(a, 0) + pw
    return tuple(sorted(d.items()))


_ONE = Poly.const(1)


def _positive_atoms():
    return _CTX.positive if _CTX is not None else ()


class SymReal:
    """A real number num/den (polynomials over z3 atoms); den is None (=1) or known > 0."""

    __slots__ = ("n", "d")

    def __init__(self, n, d=None):
        if not isinstance(n, Poly):
            n = Poly.atom(n)
        if d is not None and not isinstance(d, Poly):
            d = Poly.atom(d)
        if d is not None and d.is_const():
            k = d.const_value()
            n = n.scale(1 / k)
            d = None
        self.n = n
        self.d = d

    def __deepcopy__(self, memo):
        return self

    def __copy__(self):
        return self

    def __hash__(self):
        return id(self)

    def __bool__(self):
        r = self != 0
        return r if isinstance(r, bool) else bool(r)

    def __float__(self):
        if self.d is None and self.n.is_const():
            return float(self.n.const_value())
        raise Unsupported("float() of a symbolic real (missing loader rewrite?)")

    def term(self):
        """z3 term of the value (uses z3 division when there is a denominator)"""
        if self.d is None:
            return self.n.z3()
        return self.n.z3() / self.d.z3()

    # arithmetic -----------------------------------------------------------
    def __add__(self, o):
        o = _real_or_ni(o)
        if o is NotImplemented:
            return o
        if self.d is None and o.d is None:
            return SymReal(self.n + o.n)
        if self.d is not None and o.d is not None and self.d.same(o.d):
            return SymReal(self.n + o.n, self.d)
        if self.d is None:
            return SymReal(self.n * o.d + o.n, o.d)
        if o.d is None:
            return SymReal(self.n + o.n * self.d, self.d)
        return SymReal(self.n * o.d + o.n * self.d, self.d * o.d)

    __radd__ = __add__

    def __neg__(self):
        return SymReal(-self.n, self.d)

    def __pos__(self):
        return self

    def __sub__(self, o):
        o = _real_or_ni(o)
        if o is NotImplemented:
            return o
        return self + (-o)

    def __rsub__(self, o):
        o = _real_or_ni(o)
        if o is NotImplemented:
            return o
        return o + (-self)

    def __mul__(self, o):
        o = _real_or_ni(o)
        if o is NotImplemented:
            return o
        if self.d is None and o.d is None:
            d = None
        elif self.d is None:
            d = o.d
        elif o.d is None:
            d = self.d
        else:
            d = self.d * o.d
        n = self.n * o.n
        # cancel a common factor equal to the whole denominator (p/q * q)
        if d is not None and self.d is not None and o.d is None and self.d.same(o.n):
            return SymReal(self.n)
        if d is not None and o.d is not None and self.d is None and o.d.same(self.n):
            return SymReal(o.n)
        return SymReal(n, d)

    __rmul__ = __mul__

    def __truediv__(self, o):
        o = _real_or_ni(o)
        if o is NotImplemented:
            return o
        return _divide(self, o)

    def __rtruediv__(self, o):
        if isinstance(o, (list, tuple)):  # numpy semantics of list / np.float64
            from .npshim import Arr

            return Arr(list(o)) / self
        o = _real_or_ni(o)
        if o is NotImplemented:
            return o
        return _divide(o, self)

    def __pow__(self, k):
        if isinstance(k, int) and 0 <= k <= 6:
            r = SymReal(_ONE)
            for _ in range(k):
                r = r * self
            return r
        raise Unsupported("power of a symbolic real")

    def __abs__(self):
        sg = self.n.sign(_positive_atoms())
        if sg in ("+", "0"):
            return self
        if sg == "-":
            return -self
        e = self.n.z3()
        return SymReal(Poly.atom(z3.If(e >= 0, e, -e)), self.d)

    def __floordiv__(self, o):
        """floor(self / o) for a positive divisor: the integer k with k * o <= self < (k + 1) * o"""
        c = ctx()
        o = _real(o)
        if not bool(o > 0):
            raise Unsupported("floor division by a non-positive symbolic value")
        k = c.fresh_int("floordiv")
        kr = _real(k)
        c.add(And(kr * o <= self, self < (kr + 1) * o).e)
        return kr

    def __rfloordiv__(self, o):
        return _real(o).__floordiv__(self)

    def __mod__(self, o):
        return self - self.__floordiv__(o) * o

    def __round__(self, ndigits=None):
        """round(x, n): the multiple k / 10^n nearest to x (at an exact tie either neighbour: Python rounds the binary value
        half-to-even, ties are a null set and replay filters them)"""
        c = ctx()
        k = c.fresh_int("rounded")
        scale = 10 ** (ndigits or 0)
        d = _real(k) - self * scale
        c.add(And(d <= Fraction(1, 2), d >= Fraction(-1, 2)).e)
        if ndigits is None:
            return k
        return _real(k) / scale

    # comparisons ----------------------------------------------------------
    def _diff(self, o):
        """polynomial with the sign of self - o (denominators are positive)"""
        if self.d is None and o.d is None:
            return self.n - o.n
        if self.d is not None and o.d is not None and self.d.same(o.d):
            return self.n - o.n
        a = self.n if o.d is None else self.n * o.d
        b = o.n if self.d is None else o.n * self.d
        return a - b

    def _cmp(self, o, op):
        o = _real_or_ni(o)
        if o is NotImplemented:
            return o
        p = self._diff(o)
        if p.is_const():
            v = p.const_value()
            return _OPS[op](v, 0)
        sg = p.sign(_positive_atoms())
        if sg is not None:
            v = {"+": 1, "-": -1, "0": 0}[sg]
            return _OPS[op](v, 0)
        return SymBool(_OPS[op](p.z3(), 0))

    def __lt__(self, o):
        return self._cmp(o, "<")

    def __le__(self, o):
        return self._cmp(o, "<=")

    def __gt__(self, o):
        return self._cmp(o, ">")

    def __ge__(self, o):
        return self._cmp(o, ">=")

    def __eq__(self, o):
        r = self._cmp(o, "==")
        if r is NotImplemented and type(o).__name__ == "Arr":
            return NotImplemented  # scalar == array: the array's reflected, element-wise comparison answers
        return False if r is NotImplemented else r

    def __ne__(self, o):
        r = self._cmp(o, "!=")
        if r is NotImplemented and type(o).__name__ == "Arr":
            return NotImplemented
        return True if r is NotImplemented else r

    def __repr__(self):
        if self.d is None:
            return f"SymReal({self.n!r})"
        return f"SymReal(({self.n!r})/({self.d!r}))"


_OPS = {"<": _op.lt, "<=": _op.le, ">": _op.gt, ">=": _op.ge, "==": _op.eq, "!=": _op.ne}


def _real(x):
    if isinstance(x, SymReal):
        return x
    if isinstance(x, SymInt):
        return SymReal(Poly.atom(z3.ToReal(x.e)))
    if isinstance(x, SymBool):
        return SymReal(Poly.atom(z3.If(x.e, z3.RealVal(1), z3.RealVal(0))))
    return SymReal(Poly.const(x))


def _real_or_ni(x):
    if isinstance(x, (SymReal, SymInt)) or is_number(x):
        return _real(x)
    return NotImplemented


def _sign_of(p):
    """sign of polynomial p on this path: +1 / -1 / 0, forking if it is not determined"""
    if p.is_const():
        v = p.const_value()
        return (v > 0) - (v < 0)
    c = ctx()
    sg = p.sign(c.positive)
    if sg is not None:
        return {"+": 1, "-": -1, "0": 0}[sg]
    k = p.key()
    if k in c.sign_cache:
        return c.sign_cache[k]
    e = p.z3()
    if c.branch(e == 0):
        r = 0
    elif c.branch(e > 0):
        r = 1
    else:
        r = -1
    c.sign_cache[k] = r
    return r


def _divide(a, b):
    """a / b with Python float semantics for zero: ZeroDivisionError."""
    sg = _sign_of(b.n)
    if sg == 0:
        raise emulated(ZeroDivisionError("float division by zero"))
    # a/b = (a.n * b.d) / (a.d * b.n); keep the denominator positive
    num = a.n if b.d is None else a.n * b.d
    den = b.n if a.d is None else a.d * b.n
    if sg < 0:
        num, den = -num, -den
    if den.same(num):
        return SymReal(_ONE)
    return SymReal(num, den)


def to_int_trunc(x):
    """int(x) for a real: truncation towards zero."""
    x = _real(x)
    if x.d is not None:
        raise Unsupported("int() of a symbolic quotient")
    if x.n.is_const():
        return int(x.n.const_value())
    e = x.n.z3()
    return SymInt(z3.If(e >= 0, z3.ToInt(e), -z3.ToInt(-e)))


def is_sym(x):
    return isinstance(x, (SymBool, SymInt, SymReal))


def concrete_value(x):
    """Python value of a proxy whose term is a constant, else None."""
    if isinstance(x, SymReal):
        if x.d is None and x.n.is_const():
            return x.n.const_value()
        return None
    if isinstance(x, SymInt):
        n = z3.simplify(x.e)
        if z3.is_int_value(n):
            return n.as_long()
        return None
    if isinstance(x, SymBool):
        n = z3.simplify(x.e)
        if z3.is_true(n):
            return True
        if z3.is_false(n):
            return False
        return None
    return x


# ----------------------------------------------------------------------------
# the exploration context


class Stats:
    def __init__(self):
        self.paths = 0
        self.paths_nontrivial = 0
        self.exceptions = {}
        self.branch_queries = 0
        self.prove_queries = 0
        self.obligations = 0
        self.discharged = 0
        self.inconclusive = 0
        self.solver_s = 0.0
        self.unknown_branches = 0
        self.caps = []
        self.aborted = 0
        self.labels = {}
        self.pinned = 0  # symbolic numerals replaced by one concrete representative (under-approximation)

    def merge(self, o):
        self.pinned += getattr(o, "pinned", 0)
        self.paths += o.paths
        self.paths_nontrivial += o.paths_nontrivial
        for k, v in o.exceptions.items():
            self.exceptions[k] = self.exceptions.get(k, 0) + v
        self.branch_queries += o.branch_queries
        self.prove_queries += o.prove_queries
        self.obligations += o.obligations
        self.discharged += o.discharged
        self.inconclusive += o.inconclusive
        self.solver_s += o.solver_s
        self.unknown_branches += o.unknown_branches
        self.caps += o.caps
        self.aborted += o.aborted
        for k, v in o.labels.items():
            a = self.labels.setdefault(k, [0, 0])
            a[0] += v[0]
            a[1] += v[1]

    def as_dict(self):
        return dict(self.__dict__)


class Context:
    def __init__(self, decisions, stats, query_timeout_ms=10000, max_decisions=4000):
        self.decisions = decisions
        self.pos = 0
        self.stats = stats
        self.solver = z3.Solver()
        self.solver.set("timeout", query_timeout_ms)
        self.model = None
        self.nfresh = 0
        self.vars = []  # (name, z3 const) in creation order
        self.trace = []  # harness-level notes for samples / replay
        self.max_decisions = max_decisions
        self.symbolic_decisions = 0
        self.data = {}  # scratch space for harness observers
        self.pc_decisions = []  # the branch conditions taken (without bounds / assumptions)
        self.tentative = False
        self.tentative_ids = []
        self.soft = []  # non-fatal counter-examples of this path
        self.positive = set()  # atom ids known > 0 on this path (declared lower bound > 0)
        self.sign_cache = {}

    # -- solver plumbing
    def _check(self, *extra):
        t0 = time.time()
        r = self.solver.check(*extra)
        self.stats.solver_s += time.time() - t0
        return r

    def _ensure_model(self):
        if self.model is None:
            self.stats.branch_queries += 1
            r = self._check()
            if r == z3.unsat:
                raise Infeasible()
            if r == z3.unknown:
                self.stats.unknown_branches += 1
                return None
            self.model = self.solver.model()
        return self.model

    def _holds_in_model(self, e):
        m = self.model
        if m is None:
            return None
        try:
            v = m.eval(e, model_completion=True)
        except z3.Z3Exception:
            return None
        if z3.is_true(v):
            return True
        if z3.is_false(v):
            return False
        return None

    def add(self, e):
        self.solver.add(e)
        if self.model is not None and self._holds_in_model(e) is not True:
            self.model = None

    # -- fresh symbolic values
    def _name(self, name):
        self.nfresh += 1
        return f"{name}!{self.nfresh}"

    def fresh_real(self, name, lo=None, hi=None, lo_strict=False, hi_strict=False):
        v = z3.Real(self._name(name))
        self.vars.append((str(v), v))
        if lo is not None:
            self.add(v > realval(lo) if lo_strict else v >= realval(lo))
            if _frac(lo) > 0 or (lo_strict and _frac(lo) >= 0):
                self.positive.add(_atom_id(v))
        if hi is not None:
            self.add(v < realval(hi) if hi_strict else v <= realval(hi))
        return SymReal(v)

    def fresh_int(self, name, lo=None, hi=None):
        v = z3.Int(self._name(name))
        self.vars.append((str(v), v))
        if lo is not None:
            self.add(v >= lo)
        if hi is not None:
            self.add(v <= hi)
        return SymInt(v)

    def fresh_bool(self, name):
        v = z3.Bool(self._name(name))
        self.vars.append((str(v), v))
        return SymBool(v)

    # -- decisions
    def branch(self, e):
        e = z3.simplify(e)
        if z3.is_true(e):
            return True
        if z3.is_false(e):
            return False
        if self.pos < len(self.decisions):
            d = self.decisions[self.pos]
            self.pos += 1
            self._mark()
            if d[0] != "b":
                raise Unsupported("non-deterministic replay (decision kind)")
            taken = d[2]
            self.add(e if taken else z3.Not(e))
            self.pc_decisions.append(e if taken else z3.Not(e))
            self.symbolic_decisions += 1
            return taken
        if len(self.decisions) >= self.max_decisions:
            self.stats.caps.append("max_decisions")
            raise CapReached()
        m = self._ensure_model()
        side = None
        if m is not None:
            side = self._holds_in_model(e)
        if side is None:
            # no usable model: ask explicitly
            self.stats.branch_queries += 1
            r = self._check(e)
            side = r != z3.unsat
            if r == z3.unknown:
                self.stats.unknown_branches += 1
            self.model = None
        other = z3.Not(e) if side else e
        self.stats.branch_queries += 1
        r = self._check(other)
        if r == z3.unknown:
            self.stats.unknown_branches += 1
        other_open = r != z3.unsat
        self.decisions.append(["b", other_open, side])
        self.pos += 1
        self._mark()
        self.solver.add(e if side else z3.Not(e))
        self.pc_decisions.append(e if side else z3.Not(e))
        self.symbolic_decisions += 1
        return side

    def choose(self, conds, label="choose"):
        """Multi-way decision: returns an index i such that conds[i] is feasible; all
        feasible indices are explored.  conds[i] is a SymBool / bool / z3 term."""
        if self.pos < len(self.decisions):
            d = self.decisions[self.pos]
            self.pos += 1
            self._mark()
            if d[0] != "c":
                raise Unsupported("non-deterministic replay (decision kind)")
            i = d[2][d[3]]
            c = conds[i]
            if c is not True:
                self.add(_b(c))
                self.pc_decisions.append(_b(c))
            self.symbolic_decisions += 1
            return i
        if len(self.decisions) >= self.max_decisions:
            self.stats.caps.append("max_decisions")
            raise CapReached()
        feas = []
        for i, c in enumerate(conds):
            if c is True:
                feas.append(i)
                continue
            if c is False:
                continue
            e = z3.simplify(_b(c))
            if z3.is_true(e):
                feas.append(i)
                continue
            if z3.is_false(e):
                continue
            if self._holds_in_model(e) is True:
                feas.append(i)
                continue
            self.stats.branch_queries += 1
            r = self._check(e)
            if r == z3.unknown:
                self.stats.unknown_branches += 1
            if r != z3.unsat:
                feas.append(i)
        if not feas:
            raise Infeasible()
        self.decisions.append(["c", len(feas) > 1, feas, 0])
        self.pos += 1
        self._mark()
        i = feas[0]
        if conds[i] is not True:
            self.add(_b(conds[i]))
            self.pc_decisions.append(_b(conds[i]))
        self.symbolic_decisions += 1
        return i

    def concretise_int(self, e, cap=64):
        e = z3.simplify(e)
        if z3.is_int_value(e):
            return e.as_long()
        if self.pos < len(self.decisions):
            d = self.decisions[self.pos]
            self.pos += 1
            self._mark()
            if d[0] != "v":
                raise Unsupported("non-deterministic replay (decision kind)")
            v = d[2][d[3]]
            self.add(e == v)
            self.pc_decisions.append(e == v)
            self.symbolic_decisions += 1
            return v
        vals = []
        self.solver.push()
        while len(vals) <= cap:
            self.stats.branch_queries += 1
            r = self._check()
            if r != z3.sat:
                break
            v = self.solver.model().eval(e, model_completion=True).as_long()
            vals.append(v)
            self.solver.add(e != v)
        self.solver.pop()
        if not vals:
            raise Infeasible()
        if len(vals) > cap:
            raise Unsupported(f"concretisation of an integer with more than {cap} values")
        vals.sort()
        self.decisions.append(["v", len(vals) > 1, vals, 0])
        self.pos += 1
        self._mark()
        self.add(e == vals[0])
        self.pc_decisions.append(e == vals[0])
        self.symbolic_decisions += 1
        return vals[0]

    def pin_value(self, e, candidates=(), label="pin"):
        """Replace the symbolic number e by ONE concrete representative on this path (an under-approximation, counted in
        stats.pinned): the first feasible candidate, else the value of e in a model of the path condition.  The value is
        recorded in the decision stack so that replays of the prefix see the same one."""
        if self.pos < len(self.decisions):
            d = self.decisions[self.pos]
            self.pos += 1
            self._mark()
            if d[0] != "p":
                raise Unsupported("non-deterministic replay (decision kind)")
            val = d[2]
            self.add(e == realval(val) if z3.is_real(e) else e == int(val))
            return val
        val = None
        for cand in candidates:
            ce = e == (realval(cand) if z3.is_real(e) else int(cand))
            self.stats.branch_queries += 1
            if self._check(ce) == z3.sat:
                val = Fraction(cand)
                break
        if val is None:
            self.model = None
            m = self._ensure_model()
            if m is None:
                raise Unsupported("no model to pin a symbolic number")
            val = _z3_to_py(m.eval(e, model_completion=True))
            if isinstance(val, str):
                raise Unsupported(f"cannot pin {val}")
            val = Fraction(val)
            if z3.is_real(e):
                val = Fraction(float(val))  # a value a float can hold exactly
                self.stats.branch_queries += 1
                if self._check(e == realval(val)) != z3.sat:
                    raise Infeasible()
        self.decisions.append(["p", False, val])
        self.pos += 1
        self._mark()
        self.add(e == realval(val) if z3.is_real(e) else e == int(val))
        self.stats.pinned = getattr(self.stats, "pinned", 0) + 1
        return val

    # -- tentative decisions: decisions whose outcome is discarded by the code under analysis
    def _mark(self):
        if self.tentative:
            self.tentative_ids.append(self.pos - 1)

    def begin_tentative(self):
        self.tentative = True

    def end_tentative(self):
        self.tentative = False

    def discard_tentative(self):
        """The computation that consumed the tentative decisions was thrown away: keep the
        value taken on this path as the single representative (no alternatives explored)."""
        n = 0
        for idx in self.tentative_ids:
            d = self.decisions[idx]
            if d[1]:
                n += 1
            if d[0] == "p":
                continue
            d[1] = False
            if d[0] in ("c", "v"):
                d[2] = [d[2][d[3]]]
                d[3] = 0
        self.tentative_ids = []
        self.tentative = False
        return n

    # -- assumptions and obligations
    def assume(self, c):
        if c is True:
            return
        if c is False:
            raise Infeasible()
        e = z3.simplify(_b(c))
        if z3.is_true(e):
            return
        self.add(e)
        if self.model is None:
            self.stats.branch_queries += 1
            r = self._check()
            if r == z3.unsat:
                raise Infeasible()
            if r == z3.sat:
                self.model = self.solver.model()

    def prove(self, c, label, detail=None, fatal=True):
        """Obligation: c holds for every value of every symbolic variable on this path."""
        st = self.stats
        st.obligations += 1
        lab = st.labels.setdefault(label, [0, 0])
        lab[0] += 1
        if c is True:
            st.discharged += 1
            lab[1] += 1
            return True
        if c is False:
            e = z3.BoolVal(False)
        else:
            e = z3.simplify(_b(c))
        if z3.is_true(e):
            st.discharged += 1
            lab[1] += 1
            return True
        st.prove_queries += 1
        r = self._check(z3.Not(e))
        if r != z3.unknown and _xcheck.LIMIT[0] > 0:
            _xcheck.submit(label, "unsat" if r == z3.unsat else "sat", self.solver, z3.Not(e))
        if r == z3.unsat:
            st.discharged += 1
            lab[1] += 1
            return True
        if r == z3.unknown:
            st.inconclusive += 1
            return None
        m = self.solver.model()
        ce = Counterexample(label, self.model_values(m), detail)
        if not fatal:
            self.soft.append(ce)  # reported like any counter-example, but the path goes on
            return False
        raise ce

    def model_values(self, m=None):
        if m is None:
            m = self._ensure_model()
        out = {}
        if m is None:
            return out
        for name, v in self.vars:
            val = m.eval(v, model_completion=True)
            out[name] = _z3_to_py(val)
        return out

    def eval_in(self, mv, x):
        """Evaluate proxy/number x under a dict of model values (by substitution)."""
        if not is_sym(x):
            return x
        subs = []
        for name, v in self.vars:
            if name in mv:
                val = mv[name]
                if z3.is_int(v):
                    subs.append((v, z3.IntVal(int(val))))
                elif z3.is_real(v):
                    subs.append((v, realval(Fraction(val))))
                else:
                    subs.append((v, z3.BoolVal(bool(val))))
        if isinstance(x, SymReal):
            n = z3.simplify(z3.substitute(x.n.z3(), *subs))
            nf = _z3_to_py(n)
            if x.d is not None:
                d = _z3_to_py(z3.simplify(z3.substitute(x.d.z3(), *subs)))
                return Fraction(nf) / Fraction(d)
            return nf
        e = x.e
        return _z3_to_py(z3.simplify(z3.substitute(e, *subs)))

    def note(self, *items):
        self.trace.append(items)


def _z3_to_py(val):
    if z3.is_int_value(val):
        return val.as_long()
    if z3.is_rational_value(val):
        return Fraction(val.numerator_as_long(), val.denominator_as_long())
    if z3.is_true(val):
        return True
    if z3.is_false(val):
        return False
    if z3.is_algebraic_value(val):
        a = val.approx(20)
        return Fraction(a.numerator_as_long(), a.denominator_as_long())
    return str(val)


class PathResult:
    __slots__ = ("status", "value", "exc", "decisions", "trace", "cex", "nsym", "tb")

    def __init__(self):
        self.status = None
        self.value = None
        self.exc = None
        self.decisions = None
        self.trace = None
        self.cex = None
        self.nsym = 0
        self.tb = None


def explore(fn, max_paths=100000, deadline=None, query_timeout_ms=10000, on_path=None,
            stats=None, max_cex=8, keep_paths=False):
    """Run fn(ctx) on every feasible path.  Returns (stats, results, counterexamples, complete)."""
    global _CTX
    if stats is None:
        stats = Stats()
    decisions = []
    results = []
    cexs = []
    complete = True
    while True:
        if stats.paths >= max_paths:
            stats.caps.append("max_paths")
            complete = False
            break
        if deadline is not None and time.time() > deadline:
            stats.caps.append("deadline")
            complete = False
            break
        c = Context(decisions, stats, query_timeout_ms)
        prev = _CTX
        _CTX = c
        pr = PathResult()
        try:
            try:
                pr.value = fn(c)
                pr.status = "ok"
            except Counterexample as ce:
                pr.status = "cex"
                pr.cex = ce
            except Infeasible:
                pr.status = "infeasible"
            except CapReached:
                pr.status = "cap"
                complete = False
            except Unsupported:
                raise
            except Exception as e:  # the code under analysis raised
                if _raised_by_harness(e):
                    raise HarnessBug(f"{type(e).__name__}: {e}\n{traceback.format_exc(limit=8)}") from e
                pr.status = "exc"
                pr.exc = e
                pr.tb = traceback.format_exc(limit=6)
                k = type(e).__name__
                stats.exceptions[k] = stats.exceptions.get(k, 0) + 1
        finally:
            _CTX = prev
        pr.decisions = [list(d) for d in decisions[: c.pos]]
        pr.trace = c.trace
        pr.nsym = c.symbolic_decisions
        if pr.status != "infeasible":
            stats.paths += 1
            if c.symbolic_decisions > 0:
                stats.paths_nontrivial += 1
        else:
            stats.aborted += 1
        if pr.status == "cex":
            cexs.append(pr)
        for ce in c.soft:
            spr = PathResult()
            spr.status, spr.cex, spr.decisions, spr.trace, spr.nsym = "cex", ce, pr.decisions, pr.trace, pr.nsym
            cexs.append(spr)
            if on_path is not None:
                on_path(spr, c)
        if on_path is not None:
            on_path(pr, c)
        if keep_paths:
            results.append(pr)
        if len(cexs) >= max_cex:
            complete = False
            stats.caps.append("max_cex")
            break
        # backtrack: drop decisions beyond what this path used, then flip the deepest open one
        del decisions[c.pos:]
        while decisions:
            d = decisions[-1]
            if d[0] == "p":
                decisions.pop()
            elif d[0] == "b":
                if d[1]:
                    d[1] = False
                    d[2] = not d[2]
                    break
                decisions.pop()
            else:
                if d[3] + 1 < len(d[2]):
                    d[3] += 1
                    d[1] = d[3] + 1 < len(d[2])
                    break
                decisions.pop()
        if not decisions:
            break
    return stats, results, cexs, complete
