"""./vf check <ID> [--tier quick|thorough] | ./vf replay <file>"""
import argparse
import os
import sys

HERE = os.path.dirname(os.path.dirname(os.path.abspath(__file__)))
sys.path.insert(0, HERE)


def main():
    ap = argparse.ArgumentParser()
    ap.add_argument("cmd")
    ap.add_argument("arg", nargs="?")
    ap.add_argument("--tier", default=os.environ.get("VERIF_TIER", "quick"))
    ap.add_argument("--jobs", type=int, default=None)
    ap.add_argument("--only", default=None)
    a = ap.parse_args()
    if a.cmd == "check":
        from symx import harness

        tier = a.tier if a.tier in ("quick", "thorough") else "quick"
        code = harness.run_check(a.arg, tier, a.jobs, a.only)
        sys.exit(code)
    if a.cmd == "replay":
        from symx import harness

        ok, out = harness.replay_file(a.arg)
        print(out)
        sys.exit(1 if ok else 0)
    if a.cmd == "selftest":
        from symx import selftest

        sys.exit(selftest.main(a.arg, a.tier))
    print("unknown command")
    sys.exit(2)


if __name__ == "__main__":
    main()
