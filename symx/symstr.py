"""SymStr: a string of concrete item-length whose items are concrete characters,
symbolic characters over a stated finite alphabet, or numeral atoms.

A numeral atom Num(v) stands for "the text Python prints for the number v" and is one
item wide.  Trusted contract (CPython): float(repr(x)) == x, int(str(n)) == n, and a
printed number contains none of the characters the scanners search for.  Positions
(find / slices / len) index items.
"""
from __future__ import annotations

import z3

from . import core
from .core import SymBool, SymInt, SymReal, And, Or, Not

WS = " \t\n\r\x0b\x0c"
NUMCH = "0123456789.eE+-"


class SymChar:
    __slots__ = ("e", "alphabet")

    def __init__(self, e, alphabet):
        self.e = e  # z3 Int: code point
        self.alphabet = alphabet  # str of allowed characters

    def __deepcopy__(self, memo):
        return self

    def __repr__(self):
        return f"<{self.e}:{self.alphabet}>"


class Num:
    __slots__ = ("v", "kind", "style")

    def __init__(self, v, kind, style=None):
        self.v = v  # SymReal or SymInt (or python number)
        self.kind = kind  # 'float' | 'int'
        # how the numeral is SPELLED when it has to become concrete text (regular expressions, RDKit, replay files):
        # None = the way Python prints the number; 'plain' = positional decimal without exponent ('0.00002');
        # 'sci' = mantissa and signed exponent ('2.5e+04'); 'sci-short' = as users write it ('5e7', '2.5e-3'); 'sci-upper' = the same with a capital E.
        # Python-level parsing (float(), int()) reads every spelling as the value v.
        self.style = style

    def __deepcopy__(self, memo):
        return self

    def __repr__(self):
        return f"Num[{self.kind}]({self.v})"


def render_num(num, value):
    """concrete text of a numeral atom for the concrete value `value`"""
    if num.kind == "int":
        return str(int(value))
    x = float(value)
    st = getattr(num, "style", None)
    if st is None:
        return repr(x)
    if st == "plain":
        import numpy as _np

        t = _np.format_float_positional(x, trim="0")
        return t
    if st == "sci-upper":
        return render_num(Num(num.v, num.kind, "sci-short"), value).replace("e", "E")
    if st in ("sci", "sci-short"):
        from decimal import Decimal

        sign, digits, exp = Decimal(repr(x)).as_tuple()
        digits = list(digits)
        while len(digits) > 1 and digits[-1] == 0:
            digits.pop()
            exp += 1
        e = exp + len(digits) - 1
        m = str(digits[0]) + ("." + "".join(map(str, digits[1:])) if len(digits) > 1 else "")
        sg = "-" if sign else ""
        if st == "sci":
            if "." not in m:
                m += ".0"
            return f"{sg}{m}e{e:+03d}"
        return f"{sg}{m}e{e}"
    raise core.Unsupported(f"numeral style {st}")


def model_text(c, mv, s):
    """concrete text of a (symbolic) text under the model values mv (for replay files)"""
    if isinstance(s, str):
        return s
    out = []
    for it in s.items:
        if isinstance(it, str):
            out.append(it)
        elif isinstance(it, Num):
            v = c.eval_in(mv, it.v) if core.is_sym(it.v) else it.v
            out.append(render_num(it, v))
        else:
            out.append(chr(c.eval_in(mv, SymInt(it.e))))
    return "".join(out)


def fresh_char(name, alphabet):
    c = core.ctx()
    v = c.fresh_int(name)
    c.add(z3.Or(*[v.e == ord(ch) for ch in alphabet]))
    return SymChar(v.e, alphabet)


def _item_eq(a, b):
    """equality of two items as bool / SymBool."""
    if isinstance(a, str) and isinstance(b, str):
        return a == b
    if isinstance(a, Num) or isinstance(b, Num):
        if isinstance(a, Num) and isinstance(b, Num):
            if a.kind != b.kind:
                return False
            r = a.v == b.v
            return r
        return False
    if isinstance(a, SymChar) and isinstance(b, SymChar):
        return SymBool(a.e == b.e)
    if isinstance(a, SymChar):
        a, b = b, a
    # a concrete, b SymChar
    if a not in b.alphabet:
        return False
    return SymBool(b.e == ord(a))


def _item_in(a, chars):
    """is item a one of the concrete characters in `chars`"""
    if isinstance(a, str):
        return a in chars
    if isinstance(a, Num):
        return False
    opts = [ch for ch in a.alphabet if ch in chars]
    if not opts:
        return False
    if len(opts) == len(a.alphabet):
        return True
    return SymBool(z3.Or(*[a.e == ord(ch) for ch in opts]))


def _items(x):
    if isinstance(x, SymStr):
        return x.items
    if isinstance(x, str):
        return tuple(x)
    raise TypeError(f"expected text, got {type(x)}")


def is_text(x):
    return isinstance(x, (str, SymStr))


class SymStr:
    __slots__ = ("items",)

    def __init__(self, items):
        self.items = tuple(items)

    # -- construction helpers
    @staticmethod
    def of(*parts):
        items = []
        for p in parts:
            if isinstance(p, str):
                items.extend(p)
            elif isinstance(p, SymStr):
                items.extend(p.items)
            elif isinstance(p, (SymChar, Num)):
                items.append(p)
            elif isinstance(p, SymReal):
                items.append(Num(p, "float"))
            elif isinstance(p, SymInt):
                items.append(Num(p, "int"))
            else:
                raise TypeError(f"cannot build text from {type(p)}")
        return SymStr(items)

    def _norm(self):
        """return a plain str when every item is concrete"""
        if all(isinstance(i, str) for i in self.items):
            return "".join(self.items)
        return self

    def is_concrete(self):
        return all(isinstance(i, str) for i in self.items)

    def __deepcopy__(self, memo):
        return self

    def __copy__(self):
        return self

    def __len__(self):
        return len(self.items)

    def __iter__(self):
        for i in self.items:
            yield i if isinstance(i, str) else SymStr((i,))

    def __repr__(self):
        out = []
        for i in self.items:
            out.append(i if isinstance(i, str) else repr(i))
        return "SymStr(" + "".join(out) + ")"

    __str__ = __repr__

    def __hash__(self):
        if self.is_concrete():
            return hash("".join(self.items))
        return hash(concretise(self))

    def __getitem__(self, k):
        if isinstance(k, slice):
            start, stop, step = k.start, k.stop, k.step
            if isinstance(start, SymInt):
                start = start.__index__()
            if isinstance(stop, SymInt):
                stop = stop.__index__()
            return SymStr(self.items[slice(start, stop, step)])._norm()
        if isinstance(k, SymInt):
            k = k.__index__()
        if not -len(self.items) <= k < len(self.items):
            raise core.emulated(IndexError("string index out of range"))
        return SymStr((self.items[k],))._norm()

    def __add__(self, o):
        if not is_text(o):
            return NotImplemented
        return SymStr(self.items + _items(o))

    def __radd__(self, o):
        if not is_text(o):
            return NotImplemented
        return SymStr(_items(o) + self.items)

    def __mul__(self, n):
        return SymStr(self.items * n)

    # -- comparisons
    def __eq__(self, o):
        if not is_text(o):
            return False
        a, b = self.items, _items(o)
        has_num_a = any(isinstance(i, Num) for i in a)
        has_num_b = any(isinstance(i, Num) for i in b)
        if has_num_a != has_num_b:
            r = _eq_with_numerals(a, b) if has_num_a else _eq_with_numerals(b, a)
            return r
        if len(a) != len(b):
            return False
        conds = []
        for x, y in zip(a, b):
            r = _item_eq(x, y)
            if r is False:
                return False
            if r is not True:
                conds.append(r)
        return And(*conds)

    def __ne__(self, o):
        return Not(self.__eq__(o))

    def __contains__(self, needle):
        return bool(self.contains(needle))

    def contains(self, needle):
        nd = _items(needle)
        n, m = len(self.items), len(nd)
        if m == 0:
            return True
        alts = []
        for p in range(n - m + 1):
            r = self._match_at(p, nd)
            if r is True:
                return True
            if r is not False:
                alts.append(r)
        return Or(*alts)

    def _match_at(self, p, nd):
        conds = []
        for k, y in enumerate(nd):
            r = _item_eq(self.items[p + k], y)
            if r is False:
                return False
            if r is not True:
                conds.append(r)
        return And(*conds)

    # -- searching (forks on position)
    def find(self, needle, start=0, end=None):
        nd = _items(needle)
        n, m = len(self.items), len(nd)
        if isinstance(start, SymInt):
            start = start.__index__()
        if start is None:
            start = 0
        if start < 0:
            start = max(0, n + start)
        stop = n if end is None else min(end, n)
        for p in range(start, stop - m + 1):
            if self._match_at(p, nd):
                return p
        return -1

    def rfind(self, needle, start=0, end=None):
        nd = _items(needle)
        n, m = len(self.items), len(nd)
        stop = n if end is None else min(end, n)
        for p in range(stop - m, start - 1, -1):
            if self._match_at(p, nd):
                return p
        return -1

    def index(self, needle, start=0):
        r = self.find(needle, start)
        if r < 0:
            raise core.emulated(ValueError("substring not found"))
        return r

    def count(self, needle):
        nd = _items(needle)
        if len(nd) != 1:
            # non-overlapping count of a longer needle: fork
            cnt, p = 0, 0
            while True:
                q = self.find(needle, p)
                if q < 0:
                    return cnt
                cnt += 1
                p = q + len(nd)
        total = 0
        sym = []
        for it in self.items:
            r = _item_eq(it, nd[0])
            if r is True:
                total += 1
            elif r is not False:
                sym.append(r)
        if not sym:
            return total
        e = z3.IntVal(total)
        for r in sym:
            e = e + z3.If(r.e, 1, 0)
        return SymInt(e)

    def startswith(self, prefix, start=0):
        nd = _items(prefix)
        if len(nd) + start > len(self.items):
            return False
        return bool(self._match_at(start, nd))

    def endswith(self, suffix):
        nd = _items(suffix)
        if len(nd) > len(self.items):
            return False
        return bool(self._match_at(len(self.items) - len(nd), nd))

    # -- stripping / splitting (fork per boundary item)
    def _strip_numerals(self, chars, left, right):
        """strip() with a character set / a text that holds numeral atoms: the set of characters depends on how the numbers
        print, so everything is made concrete (numerals per printing class); an integer numeral at the stripped end is first
        forked over 'its outer digit is in the set' so that both outcomes are explored"""
        c = core.ctx()
        cs = concretise(chars) if isinstance(chars, SymStr) else chars
        digits = [int(ch) for ch in cs if ch.isdigit()]
        items = list(self.items)
        for pos, on in ((0, left), (-1, right)):
            if on and items and isinstance(items[pos], Num) and items[pos].kind == "int" and core.is_sym(items[pos].v) and digits:
                v = items[pos].v
                if pos == -1:
                    hit = Or(*[v % 10 == d for d in digits])
                    which = c.choose([hit, Not(hit)], label="outer digit of a numeral in the stripped set")
                    if which == 0:
                        c.pin_value(v.e, [d for d in digits if d] + [10 + d for d in digits], label="numeral ending in a stripped digit")
        text = concretise(SymStr(tuple(items)))
        return text, cs

    def _strip_idx(self, chars, left=True, right=True):
        chars = WS if chars is None else chars
        a, b = 0, len(self.items)
        if left:
            while a < b and _item_in(self.items[a], chars):
                a += 1
        if right:
            while b > a and _item_in(self.items[b - 1], chars):
                b -= 1
        return a, b

    def strip(self, chars=None):
        if chars is not None and self.items and (isinstance(chars, SymStr) or any(isinstance(it, Num) for it in self.items) and any(ch.isdigit() or ch in ".e-+" for ch in chars)):
            if isinstance(chars, SymStr) or isinstance(self.items[0 if True else -1], Num) or isinstance(self.items[-1 if True else 0], Num):
                text, cs = self._strip_numerals(chars, True, True)
                return text.strip(cs)
        a, b = self._strip_idx(chars)
        return SymStr(self.items[a:b])._norm()

    def lstrip(self, chars=None):
        if chars is not None and self.items and (isinstance(chars, SymStr) or any(isinstance(it, Num) for it in self.items) and any(ch.isdigit() or ch in ".e-+" for ch in chars)):
            if isinstance(chars, SymStr) or isinstance(self.items[0 if True else -1], Num) or isinstance(self.items[-1 if False else 0], Num):
                text, cs = self._strip_numerals(chars, True, False)
                return text.lstrip(cs)
        a, b = self._strip_idx(chars, right=False)
        return SymStr(self.items[a:b])._norm()

    def rstrip(self, chars=None):
        if chars is not None and self.items and (isinstance(chars, SymStr) or any(isinstance(it, Num) for it in self.items) and any(ch.isdigit() or ch in ".e-+" for ch in chars)):
            if isinstance(chars, SymStr) or isinstance(self.items[0 if False else -1], Num) or isinstance(self.items[-1 if True else 0], Num):
                text, cs = self._strip_numerals(chars, False, True)
                return text.rstrip(cs)
        a, b = self._strip_idx(chars, left=False)
        return SymStr(self.items[a:b])._norm()

    def split(self, sep=None, maxsplit=-1):
        out = []
        if sep is None:
            cur = []
            for it in self.items:
                if _item_in(it, WS):
                    if cur:
                        out.append(SymStr(cur)._norm())
                        cur = []
                else:
                    cur.append(it)
            if cur:
                out.append(SymStr(cur)._norm())
            return out
        nd = _items(sep)
        if len(nd) != 1:
            raise core.Unsupported("split on a multi-character separator")
        cur = []
        for it in self.items:
            if _item_eq(it, nd[0]):
                out.append(SymStr(cur)._norm())
                cur = []
            else:
                cur.append(it)
        out.append(SymStr(cur)._norm())
        return out

    def upper(self):
        return self._map(str.upper)

    def lower(self):
        return self._map(str.lower)

    def _map(self, f):
        if any(isinstance(i, SymChar) for i in self.items):
            return SymStr(tuple(concretise(self)))._map(f)
        return SymStr([f(i) if isinstance(i, str) else i for i in self.items])._norm()

    def replace(self, old, new, count=-1):
        nd = _items(old)
        if not nd:
            raise core.Unsupported("replace of the empty string")
        out = []
        i, n, m, done = 0, len(self.items), len(nd), 0
        while i < n:
            if i + m <= n and (count < 0 or done < count) and self._match_at(i, nd):
                out.extend(_items(new))
                i += m
                done += 1
            else:
                out.append(self.items[i])
                i += 1
        return SymStr(out)._norm()

    def isdigit(self):
        return bool(And(*[_item_in(i, "0123456789") for i in self.items])) and len(self.items) > 0

    def join(self, parts):
        out = []
        first = True
        for p in parts:
            if not first:
                out.extend(self.items)
            out.extend(_items(p))
            first = False
        return SymStr(out)._norm()

    def encode(self, *a):
        return concretise(self).encode(*a)


def _eq_with_numerals(a, b):
    """a contains Num atoms, b does not.  A Num matches a maximal run of numeral characters
    in b and is equal iff its value equals the run's value and the run is the canonical
    print of that value."""
    conds = []
    j = 0
    for i, x in enumerate(a):
        if isinstance(x, Num):
            k = j
            while k < len(b) and isinstance(b[k], str) and b[k] in NUMCH + "infa":
                k += 1
            if k == j:
                return False
            span = "".join(b[j:k])
            try:
                val = int(span) if x.kind == "int" else float(span)
            except ValueError:
                return False
            canon = render_num(x, val)
            if canon != span:
                return False
            r = x.v == val
            if r is False:
                return False
            if r is not True:
                conds.append(r)
            j = k
        else:
            if j >= len(b):
                return False
            r = _item_eq(x, b[j])
            if r is False:
                return False
            if r is not True:
                conds.append(r)
            j += 1
    if j != len(b):
        return False
    return And(*conds)


def concretise(s):
    """Force every symbolic character of s concrete (forking over its alphabet); numeral
    atoms are not allowed here."""
    if isinstance(s, str):
        return s
    c = core.ctx()
    out = []
    for it in s.items:
        if isinstance(it, str):
            out.append(it)
        elif isinstance(it, SymChar):
            v = c.concretise_int(it.e, cap=128)
            out.append(chr(v))
        else:
            v = core.concrete_value(it.v)
            if v is None:
                v = realise_numeral(it)
            out.append(render_num(it, v))
    return "".join(out)


# format classes of CPython's number printing: repr(float) is plain decimal for 1e-4 <= |x| < 1e16 and uses an exponent
# outside; str(int) has no classes but its digit count / sign.  A numeral atom that reaches a C-level text function
# (regular expressions, RDKit) is forked over these classes and pinned to one representative value per class.
_FLOAT_CLASSES = [
    ("zero", lambda x: x == 0, [0.0]),
    # positive values: repr() switches to an exponent below 1e-4 and from 1e16; the other spellings ('2.5e-3', '1.2e3') differ
    # in the sign / presence of the exponent below 1, in [1, 10) and from 10 on
    ("small-exponent", lambda x: And(x > 0, x < 1e-4), [2.5e-05, 1e-05, 5e-06, 1e-06, 1e-07]),
    ("below-one", lambda x: And(x >= 1e-4, x < 1), [0.025, 0.5, 0.25, 0.125, 0.001]),
    ("one-to-ten", lambda x: And(x >= 1, x < 10), [2.5, 1.0, 2.0, 3.0, 1.5, 5.0]),
    ("ten-and-more", lambda x: And(x >= 10, x < 1e16), [1200.0, 50.0, 100.0, 12.5, 10.0, 1000.0, 25000.0, 99.0]),
    ("large-exponent", lambda x: x >= 1e16, [2.5e16, 1e16, 1e17, 1e20]),
    ("negative", lambda x: And(x < 0, x > -1e16, x <= -1e-4), [-1.0, -2.5, -0.5, -10.0, -100.0, -1200.0]),
    ("small-exponent-negative", lambda x: And(x > -1e-4, x < 0), [-1e-05, -1e-06]),
    ("large-exponent-negative", lambda x: x <= -1e16, [-1e16, -1e20]),
]
_INT_CLASSES = [
    ("zero", lambda n: n == 0, [0]),
    ("one-digit", lambda n: And(n > 0, n < 10), [1, 2, 5, 9]),
    ("more-digits", lambda n: n >= 10, [10, 12, 50, 100, 1000]),
    ("negative", lambda n: n < 0, [-1, -5, -10]),
]


def realise_numeral(num):
    """numeral atom with a symbolic value -> one concrete value per printing class (forks over the classes)"""
    c = core.ctx()
    v = num.v
    classes = _INT_CLASSES if num.kind == "int" else _FLOAT_CLASSES
    x = v if num.kind == "int" else core._real(v)
    conds = [f(x) for _, f, _ in classes]
    i = c.choose(conds, label="numeral printing class")
    e = x.e if isinstance(x, SymInt) else x.term()
    val = c.pin_value(e, classes[i][2], label=classes[i][0])
    return int(val) if num.kind == "int" else float(val)


class ReProxy:
    """the module `re` as seen by the rewritten package: symbolic text is forced concrete before it reaches the C matcher
    (symbolic characters fork over their alphabet, numeral atoms over their printing classes)"""

    def __init__(self):
        import re as _re

        self._re = _re

    def _conc(self, x):
        return concretise(x) if isinstance(x, SymStr) else x

    def __getattr__(self, name):
        f = getattr(self._re, name)
        if not callable(f) or isinstance(f, type):
            return f

        def call(*a, **k):
            a = [self._conc(x) for x in a]
            k = {kk: self._conc(v) for kk, v in k.items()}
            r = f(*a, **k)
            if name == "compile":
                return _PatternProxy(r, self)
            return r

        return call


class _PatternProxy:
    def __init__(self, pat, owner):
        self._p, self._o = pat, owner

    def __getattr__(self, name):
        f = getattr(self._p, name)
        if not callable(f):
            return f

        def call(*a, **k):
            return f(*[self._o._conc(x) for x in a], **{kk: self._o._conc(v) for kk, v in k.items()})

        return call


RE = ReProxy()


def str_method(name, recv, *args, **kw):
    """`"lit".join(parts)` / `"lit".format(...)` with symbolic arguments (C-level str methods reject proxies)"""
    if not isinstance(recv, str):
        return getattr(recv, name)(*args, **kw)
    if name == "join":
        parts = list(args[0])
        if any(isinstance(p, SymStr) for p in parts):
            return SymStr(tuple(recv)).join(parts)
        return recv.join(parts)
    if name == "format":
        vals = list(args) + list(kw.values())
        if not any(core.is_sym(v) or isinstance(v, SymStr) for v in vals):
            return recv.format(*args, **kw)
        import string

        parts, auto = [], 0
        for lit, field, spec, conv in string.Formatter().parse(recv):
            if lit:
                parts.append(("s", lit))
            if field is None:
                continue
            if field == "":
                val = args[auto]
                auto += 1
            elif field.isdigit():
                val = args[int(field)]
            elif field in kw:
                val = kw[field]
            else:
                raise core.Unsupported(f"format field {field!r} with symbolic arguments")
            parts.append(("v", val, ord(conv) if conv else -1, spec or None))
        return fstring(parts)
    return getattr(recv, name)(*args, **kw)


def mod_format(fmt, arg):
    """`"lit %s" % x` with symbolic arguments"""
    if not isinstance(fmt, str):
        return fmt % arg
    args = arg if isinstance(arg, tuple) else (arg,)
    if not any(core.is_sym(v) or isinstance(v, SymStr) for v in args):
        return fmt % arg
    import re as _re

    parts, k, pos = [], 0, 0
    for m in _re.finditer(r"%(%|s|r|d|i|g|f|\.\d+[fg])", fmt):
        if m.start() > pos:
            parts.append(("s", fmt[pos:m.start()]))
        pos = m.end()
        t = m.group(1)
        if t == "%":
            parts.append(("s", "%"))
            continue
        if k >= len(args):
            raise core.emulated(TypeError("not enough arguments for format string"))
        v = args[k]
        k += 1
        if t in ("s", "d", "i"):
            parts.append(("v", v, -1, None))
        elif t == "r":
            parts.append(("v", v, ord("r"), None))
        elif t in ("g", "f"):
            parts.append(("v", v, -1, ".6" + t))
        else:
            parts.append(("v", v, -1, t))
    if "%" in fmt[pos:]:
        raise core.Unsupported(f"%-format {fmt!r} with symbolic arguments")
    parts.append(("s", fmt[pos:]))
    if k != len(args):
        raise core.emulated(TypeError("not all arguments converted during string formatting"))
    return fstring(parts)


# ----------------------------------------------------------------------------
# conversions used by the loader hooks


def _py(f, x):
    try:
        return f(x)
    except ValueError as e:
        raise core.emulated(e)


def to_float(x):
    if isinstance(x, SymStr):
        s = x.strip()
        if isinstance(s, str):
            return _py(float, s)
        its = s.items
        if len(its) == 1 and isinstance(its[0], Num):
            v = its[0].v
            return core._real(v) if core.is_sym(v) else float(v)
        if len(its) == 2 and isinstance(its[0], Num) and its[0].kind == "int" and its[1] == ".":
            v = its[0].v  # '2.' : an integer literal with a trailing dot
            return core._real(v) if core.is_sym(v) else float(v)
        if any(isinstance(i, Num) for i in its):
            raise core.emulated(ValueError(f"could not convert string to float: {s!r}"))
        return _py(float, concretise(s))
    if isinstance(x, SymReal):
        return x
    if isinstance(x, SymInt):
        return core._real(x)
    return _py(float, x)


def to_int(x):
    if isinstance(x, SymStr):
        s = x.strip()
        if isinstance(s, str):
            return _py(int, s)
        its = s.items
        if len(its) == 1 and isinstance(its[0], Num):
            if its[0].kind != "int":
                raise core.emulated(ValueError(f"invalid literal for int() with base 10: {s!r}"))
            return its[0].v
        if any(isinstance(i, Num) for i in its):
            raise core.emulated(ValueError(f"invalid literal for int() with base 10: {s!r}"))
        # all digits?  value = sum d_i 10^k, one fork decides digit-ness
        if all(isinstance(i, (str, SymChar)) for i in its):
            alld = And(*[_item_in(i, "0123456789") for i in its])
            if alld:
                e = z3.IntVal(0)
                for i in its:
                    d = z3.IntVal(int(i)) if isinstance(i, str) else (i.e - 48)
                    e = e * 10 + d
                e = z3.simplify(e)
                if z3.is_int_value(e):
                    return e.as_long()
                return SymInt(e)
        return _py(int, concretise(s))
    if isinstance(x, SymReal):
        return core.to_int_trunc(x)
    if isinstance(x, SymInt):
        return x
    return _py(int, x)


def to_str(x):
    if isinstance(x, (str, SymStr)):
        return x
    if isinstance(x, SymReal):
        return SymStr((Num(x, "float"),))
    if isinstance(x, SymInt):
        return SymStr((Num(x, "int"),))
    tp = type(x)
    if hasattr(tp, "generate_string") and "__str__" in _mro_dict(tp):
        return tp.__str__(x)
    if isinstance(x, (tuple, list)) and any(core.is_sym(i) or isinstance(i, SymStr) for i in x):
        return _seq_repr(x)
    return str(x)


def _mro_dict(tp):
    d = {}
    for k in tp.__mro__:
        if k is object:
            continue
        d.update(k.__dict__)
    return d


def _seq_repr(x):
    op, cl = ("(", ")") if isinstance(x, tuple) else ("[", "]")
    parts = [op]
    for k, i in enumerate(x):
        if k:
            parts.append(", ")
        parts.append(to_repr(i))
    if isinstance(x, tuple) and len(x) == 1:
        parts.append(",")
    parts.append(cl)
    return SymStr.of(*parts)


def to_repr(x):
    if isinstance(x, (SymReal, SymInt)):
        return to_str(x)
    if isinstance(x, (tuple, list)):
        return _seq_repr(x)
    if isinstance(x, SymStr):
        raise core.Unsupported("repr of symbolic text")
    return repr(x)


_LONG_MANTISSA = [[66.66667, 12.345678, 2.0000051, 0.6666667, 1234.5678], [1.0000049, 33.33333, 87.654322, 0.3333333, 1234.5612]]


def fstring(parts):
    """parts: list of ('s', literal) | ('v', value, conversion, spec)"""
    out = []
    symbolic = False
    for p in parts:
        if p[0] == "s":
            out.append(p[1])
            continue
        _, v, conv, spec = p
        if spec:
            if isinstance(v, SymStr):
                raise core.Unsupported("format spec on symbolic text")
            if core.is_sym(v):
                # a rounding format: the printed numeral stands for SOME number within the format's rounding error
                import re as _re

                m = _re.fullmatch(r"\.(\d+)([gGeEf])", spec)
                if not m:
                    raise core.Unsupported(f"format spec {spec!r} on a symbolic value")
                digits, kind_ = int(m.group(1)), m.group(2)
                c = core.ctx()
                x = core._real(v)
                # two ways to follow a rounding format, both explored: (0) the printed numeral stands for SOME number within
                # the format's rounding error (covers every value); (1) the value is pinned to a representative with more
                # digits than the format keeps and printed by CPython itself (exact, so that a candidate replays)
                way = c.choose([True, True, True], label="rounding format: any value within the error / a pinned long mantissa rounded up / rounded down")
                if way:
                    val = c.pin_value(x.term(), _LONG_MANTISSA[way - 1], label="long mantissa")
                    out.append(format(float(val), spec))
                    continue
                r = c.fresh_real("rounded")
                if kind_ in "fF":
                    c.add((abs(r - x) <= 0.5 * 10 ** (-digits)).e)
                else:
                    d_ = digits - 1 if kind_ in "gG" else digits
                    c.add((abs(r - x) <= abs(x) * 5 * 10 ** (-d_ - 1)).e)
                out.append(SymStr((Num(r, "float"),)))
                symbolic = True
                continue
            out.append(format(v, spec))
            continue
        if conv == ord("r"):
            t = to_repr(v)
        else:
            t = to_str(v)
        if isinstance(t, SymStr):
            symbolic = True
        out.append(t)
    if not symbolic:
        return "".join(out)
    return SymStr.of(*out)._norm()


def contains(a, b):
    """`a in b`"""
    if isinstance(b, str) and isinstance(a, SymStr):
        return bool(SymStr(tuple(b)).contains(a))
    if isinstance(b, SymStr):
        return bool(b.contains(a))
    return a in b


def literal_tuple(x):
    """stand-in for ast.literal_eval on the argument text of a distribution: '(a)', '(a, b)' ...
    Contract: literal_eval of a parenthesised numeral / tuple of numerals yields that number / tuple."""
    import ast

    if isinstance(x, str):
        return ast.literal_eval(x)
    s = x.strip()
    if isinstance(s, str):
        return ast.literal_eval(s)
    its = list(s.items)
    if not its or its[0] != "(" or its[-1] != ")":
        raise core.emulated(ValueError("malformed node or string"))
    inner = SymStr(its[1:-1])
    vals = []
    for part in inner.split(","):
        p = part.strip() if not isinstance(part, str) else part.strip()
        if isinstance(p, str):
            if p == "":
                continue
            try:
                vals.append(ast.literal_eval(p))
            except (ValueError, SyntaxError) as e:
                raise core.emulated(ValueError(str(e)))
            continue
        if len(p.items) == 1 and isinstance(p.items[0], Num):
            vals.append(p.items[0].v)
        else:
            raise core.emulated(ValueError("malformed node or string"))
    has_comma = bool(inner.contains(","))
    if len(vals) == 1 and not has_comma:
        return vals[0]
    return tuple(vals)
