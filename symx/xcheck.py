"""Second-solver cross-check (DESIGN.md 3.4).

A sample of the assertion queries  pc /\\ not(phi)  that the in-process z3 (the z3-solver wheel) answered is written out
as SMT-LIB2 and discharged again by two independent solver binaries: /usr/bin/z3 (4.8.12) and cvc5 (1.0.x).  Any
disagreement (one says sat, another unsat), and any `(error` line, is recorded; a disagreement makes the run report
`second_solver_disagreements` and a NOTE (the obligation is then to be read as inconclusive).  `unknown` / time-out of a
second solver is counted separately: it is no verdict.

The sample: the first LIMIT queries per obligation label and case (so every kind of obligation of every case is
cross-checked at least once, and an encoding change is always diffed).
"""
from __future__ import annotations

import os
import shutil
import subprocess
import tempfile

import z3

LIMIT = [0]  # queries per label per case; 0 = off
_COUNTS = {}
_QUEUE = []

SOLVERS = [
    ("z3-4.8.12", ["/usr/bin/z3", "-T:20"], ""),
    ("cvc5-1.0", ["cvc5", "--tlimit=20000"], "(set-logic ALL)\n"),
]


def configure(tier):
    v = os.environ.get("VERIF_XCHECK")
    if v is not None:
        LIMIT[0] = int(v)
    else:
        LIMIT[0] = 1 if tier == "quick" else 4


def submit(label, verdict, solver, neg):
    """called by Context.prove with the in-process verdict ('unsat' = discharged, 'sat' = counter-example)"""
    if LIMIT[0] <= 0:
        return
    n = _COUNTS.get(label, 0)
    if n >= LIMIT[0]:
        return
    _COUNTS[label] = n + 1
    s2 = z3.Solver()
    s2.add(*solver.assertions())
    s2.add(neg)
    _QUEUE.append((label, verdict, s2.to_smt2()))


def _run(cmd, path):
    try:
        r = subprocess.run(cmd + [path], capture_output=True, text=True, timeout=40)
    except subprocess.TimeoutExpired:
        return "unknown"
    out = (r.stdout + r.stderr).strip()
    if "(error" in out:
        return "error"
    first = out.splitlines()[0].strip() if out else ""
    if first in ("sat", "unsat", "unknown"):
        return first
    if "timeout" in out:
        return "unknown"
    return "error"


def flush():
    """run the queued queries through the external solvers; returns a summary dict and empties the queue"""
    summary = {"queries": len(_QUEUE), "solvers": {}, "disagreements": [], "labels": len(_COUNTS)}
    if not _QUEUE:
        _COUNTS.clear()
        return summary
    d = tempfile.mkdtemp(prefix="symx-xcheck-")
    try:
        for name, cmd, prelude in SOLVERS:
            if shutil.which(cmd[0]) is None:
                summary["solvers"][name] = {"missing": True}
                continue
            st = {"agree": 0, "disagree": 0, "unknown": 0, "error": 0}
            for k, (label, verdict, text) in enumerate(_QUEUE):
                p = os.path.join(d, f"q{k}.smt2")
                with open(p, "w") as fh:
                    fh.write(prelude + text)
                r = _run(cmd, p)
                if r == verdict:
                    st["agree"] += 1
                elif r in ("sat", "unsat"):
                    st["disagree"] += 1
                    if len(summary["disagreements"]) < 5:
                        summary["disagreements"].append({"label": label, "in_process": verdict, name: r, "smt2": text[:4000]})
                elif r == "unknown":
                    st["unknown"] += 1
                else:
                    st["error"] += 1
            summary["solvers"][name] = st
    finally:
        shutil.rmtree(d, ignore_errors=True)
    _QUEUE.clear()
    _COUNTS.clear()
    return summary


def merge(total, s):
    if not s:
        return total
    total["queries"] = total.get("queries", 0) + s.get("queries", 0)
    for name, st in s.get("solvers", {}).items():
        t = total.setdefault("solvers", {}).setdefault(name, {})
        for k, v in st.items():
            if isinstance(v, bool):
                t[k] = v
            else:
                t[k] = t.get(k, 0) + v
    total.setdefault("disagreements", [])
    for x in s.get("disagreements", []):
        if len(total["disagreements"]) < 5:
            total["disagreements"].append(x)
    return total
