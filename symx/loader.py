"""Import /repo/src/gbigsmiles through an AST rewrite.

The source of every module is read from the working tree at import time, so the
"encoding" is regenerated from the current source on every run.  The rewrite touches
only the places where Python semantics cross into C string / number code:

  f"...{x}..."                 -> __sx_fstr__([...])
  a in b / a not in b          -> __sx_in__(a, b) / not __sx_in__(a, b)
  str(x) int(x) float(x) isinstance(x, t)  -> __sx_str__ ... (builtins only)
  while ...: body              -> body prefixed with __sx_tick__(loop id)

Everything else is the repository's code executed by CPython.
"""
from __future__ import annotations

import ast
import builtins
import hashlib
import importlib.abc
import importlib.machinery
import importlib.util
import os
import sys

from . import core, npshim, symstr

REPO = os.environ.get("GBIGSMILES_REPO", "/repo")
PKG = "gbigsmiles"

# numpy is replaced by the shim in every module of the package (also in modules that only import it after a change)
# except where it is used for geometry (mol_gen) or handed to scipy (distribution)
NO_NUMPY_SHIM_IN = {"mol_gen", "distribution", "_version", "__init__"}


class Rewriter(ast.NodeTransformer):
    def __init__(self, shim_numpy=True):
        self.shim_numpy = shim_numpy
        self.loop_id = 0
        self.counts = {"fstr": 0, "in": 0, "call": 0, "while": 0}

    def visit_JoinedStr(self, node):
        self.generic_visit(node)
        parts = []
        for v in node.values:
            if isinstance(v, ast.Constant):
                parts.append(ast.Tuple([ast.Constant("s"), v], ast.Load()))
            else:  # FormattedValue
                spec = v.format_spec if v.format_spec is not None else ast.Constant(None)
                if isinstance(spec, ast.JoinedStr):
                    if all(isinstance(s, ast.Constant) for s in spec.values):
                        spec = ast.Constant("".join(s.value for s in spec.values))
                    else:
                        spec = self.visit_JoinedStr(spec)
                parts.append(
                    ast.Tuple(
                        [ast.Constant("v"), v.value, ast.Constant(v.conversion), spec], ast.Load()
                    )
                )
        self.counts["fstr"] += 1
        return ast.copy_location(
            ast.Call(ast.Name("__sx_fstr__", ast.Load()), [ast.List(parts, ast.Load())], []), node
        )

    def visit_Compare(self, node):
        self.generic_visit(node)
        if len(node.ops) == 1 and isinstance(node.ops[0], (ast.In, ast.NotIn)):
            call = ast.Call(
                ast.Name("__sx_in__", ast.Load()), [node.left, node.comparators[0]], []
            )
            self.counts["in"] += 1
            if isinstance(node.ops[0], ast.NotIn):
                call = ast.UnaryOp(ast.Not(), call)
            return ast.copy_location(call, node)
        return node

    def _shimmed(self, modname):
        if modname == "re":
            return "__sx_re__"
        if modname == "numpy" and self.shim_numpy:
            return "__sx_np__"
        if modname == "numpy.random" and self.shim_numpy:
            return "__sx_np__.random"
        return None

    def visit_Import(self, node):
        # `import re` / `import numpy as np` (module level or local): bind the proxy instead, so that also objects created at
        # import time (compiled patterns, arrays) are the proxies'
        out, keep = [], []
        for a in node.names:
            tgt = self._shimmed(a.name)
            if tgt is None:
                keep.append(a)
                continue
            name = a.asname or a.name.split(".")[0]
            out.append(ast.Assign([ast.Name(name, ast.Store())], ast.parse(tgt if a.asname or "." not in a.name else tgt.split(".")[0], mode="eval").body))
        if keep:
            out.insert(0, ast.Import(keep))
        return [ast.copy_location(n, node) for n in out]

    def visit_ImportFrom(self, node):
        tgt = self._shimmed(node.module) if node.level == 0 and node.module else None
        if tgt is None or any(a.name == "*" for a in node.names):
            return node
        out = []
        for a in node.names:
            out.append(ast.Assign([ast.Name(a.asname or a.name, ast.Store())], ast.parse(f"__sx_getattr__({tgt}, {a.name!r})", mode="eval").body))
        return [ast.copy_location(n, node) for n in out]

    def visit_BinOp(self, node):
        self.generic_visit(node)
        if isinstance(node.op, ast.Mod) and isinstance(node.left, ast.Constant) and isinstance(node.left.value, str):
            self.counts["call"] += 1
            return ast.copy_location(ast.Call(ast.Name("__sx_mod__", ast.Load()), [node.left, node.right], []), node)
        return node

    def visit_Call(self, node):
        self.generic_visit(node)
        if (isinstance(node.func, ast.Attribute) and node.func.attr in ("join", "format") and isinstance(node.func.value, ast.Constant)
                and isinstance(node.func.value.value, str) and not any(isinstance(a, ast.Starred) for a in node.args)
                and not any(k.arg is None for k in node.keywords)):
            self.counts["call"] += 1
            return ast.copy_location(ast.Call(ast.Name("__sx_strmeth__", ast.Load()), [ast.Constant(node.func.attr), node.func.value] + node.args,
                                              node.keywords), node)
        if isinstance(node.func, ast.Name) and node.func.id in ("str", "int", "float", "isinstance"):
            if not node.keywords:
                node.func = ast.copy_location(
                    ast.Name(f"__sx_{node.func.id}__", ast.Load()), node.func
                )
                self.counts["call"] += 1
        return node

    def visit_While(self, node):
        self.generic_visit(node)
        self.loop_id += 1
        tick = ast.Expr(
            ast.Call(ast.Name("__sx_tick__", ast.Load()), [ast.Constant(self.loop_id)], [])
        )
        ast.copy_location(tick, node)
        node.body.insert(0, tick)
        self.counts["while"] += 1
        return node


# --- hooks -------------------------------------------------------------------

TICK_LIMIT = None  # set by harnesses that check termination
TICKS = {}


class LoopBound(Exception):
    """A while loop exceeded the unwinding bound (not raised unless a harness sets TICK_LIMIT)."""


def _tick(loop_id):
    if TICK_LIMIT is None:
        return
    n = TICKS.get(loop_id, 0) + 1
    TICKS[loop_id] = n
    if n > TICK_LIMIT:
        raise core.emulated(LoopBound(loop_id))


def reset_ticks(limit=None):
    global TICK_LIMIT
    TICK_LIMIT = limit
    TICKS.clear()


def _no_warn(*a, **k):
    return None


def _sx_isinstance(x, t):
    if isinstance(x, symstr.SymStr):
        if t is str:
            return True
        if isinstance(t, tuple) and str in t:
            return True
    if isinstance(x, core.SymReal):
        if t is float or (isinstance(t, tuple) and float in t):
            return True
    if isinstance(x, core.SymInt):
        if t is int or (isinstance(t, tuple) and int in t):
            return True
    return isinstance(x, t)


def _sx_int(x, *a):
    if a:
        return int(x, *a)
    return symstr.to_int(x)


HOOKS = {
    "__sx_fstr__": symstr.fstring,
    "__sx_in__": symstr.contains,
    "__sx_str__": symstr.to_str,
    "__sx_int__": _sx_int,
    "__sx_float__": symstr.to_float,
    "__sx_isinstance__": _sx_isinstance,
    "__sx_tick__": _tick,
    "__sx_strmeth__": symstr.str_method,
    "__sx_mod__": symstr.mod_format,
    "__sx_re__": symstr.RE,
    "__sx_np__": npshim.np,
}


def _sx_getattr(obj, name):
    try:
        return getattr(obj, name)
    except core.Unsupported:
        def _unmodelled(*a, **kw):
            raise core.Unsupported(f"{name} is not modelled by the proxies")

        return _unmodelled


HOOKS["__sx_getattr__"] = _sx_getattr

# --- finder / loader ----------------------------------------------------------

SOURCE_HASHES = {}
REWRITE_COUNTS = {}
PATCHES = {}  # module short name -> callable(source) -> source   (selftest mutants)


class _Loader(importlib.abc.Loader):
    def __init__(self, fullname, path, is_pkg):
        self.fullname = fullname
        self.path = path
        self.is_pkg = is_pkg

    def create_module(self, spec):
        return None

    def get_resource_reader(self, fullname):
        if not self.is_pkg:
            return None
        from importlib.resources.readers import FileReader

        return FileReader(self)

    def exec_module(self, module):
        with open(self.path, "r", encoding="utf-8") as fh:
            src = fh.read()
        short = self.fullname.split(".")[-1]
        SOURCE_HASHES[os.path.relpath(self.path, REPO)] = hashlib.sha256(src.encode()).hexdigest()[:16]
        if short in PATCHES:
            src = PATCHES[short](src)
        tree = ast.parse(src, filename=self.path)
        rw = Rewriter(shim_numpy=short not in NO_NUMPY_SHIM_IN)
        tree = rw.visit(tree)
        ast.fix_missing_locations(tree)
        REWRITE_COUNTS[short] = rw.counts
        code = compile(tree, self.path, "exec", dont_inherit=True)
        module.__dict__.update(HOOKS)
        exec(code, module.__dict__)
        if short == "distribution":
            # scipy needs the real numpy here; only scalar predicates / elementary functions applied to symbolic numbers
            # (guards such as np.isclose(sigma, 0) in a constructor) are answered by the shim
            import numpy as _rnp

            for k, v in list(module.__dict__.items()):
                if v is _rnp:
                    module.__dict__[k] = _HybridNumpy(_rnp)
        if short not in NO_NUMPY_SHIM_IN:
            import numpy as _rnp

            for k, v in list(module.__dict__.items()):
                if v is _rnp:
                    module.__dict__[k] = npshim.np
                elif v is _rnp.random:
                    module.__dict__[k] = npshim.np.random
                elif callable(v) and getattr(_rnp, getattr(v, "__name__", "?"), None) is v and not isinstance(v, type):
                    try:  # `from numpy import zeros`
                        module.__dict__[k] = getattr(npshim.np, v.__name__)
                    except core.Unsupported:
                        def _unmodelled(*a, _n=v.__name__, **kw):
                            raise core.Unsupported(f"numpy.{_n} is not modelled by the shim")

                        module.__dict__[k] = _unmodelled
        import re as _real_re

        for k, v in list(module.__dict__.items()):
            if v is _real_re:
                module.__dict__[k] = symstr.RE
            elif callable(v) and getattr(v, "__module__", None) == "re" and getattr(_real_re, getattr(v, "__name__", "?"), None) is v:
                module.__dict__[k] = getattr(symstr.RE, v.__name__)  # `from re import fullmatch`
        if "warn" in module.__dict__:
            module.__dict__["warn"] = _no_warn
        if "make_tuple" in module.__dict__:
            module.__dict__["make_tuple"] = symstr.literal_tuple


class _Finder(importlib.abc.MetaPathFinder):
    def __init__(self, root):
        self.root = root

    def find_spec(self, fullname, path=None, target=None):
        if fullname != PKG and not fullname.startswith(PKG + "."):
            return None
        rel = fullname.split(".")[1:]
        base = os.path.join(self.root, *rel)
        if os.path.isdir(base) and os.path.exists(os.path.join(base, "__init__.py")):
            p = os.path.join(base, "__init__.py")
            spec = importlib.machinery.ModuleSpec(
                fullname, _Loader(fullname, p, True), origin=p, is_package=True
            )
            spec.submodule_search_locations = [base]
            spec.has_location = True
            return spec
        p = base + ".py"
        if os.path.exists(p):
            spec = importlib.machinery.ModuleSpec(fullname, _Loader(fullname, p, False), origin=p)
            spec.has_location = True
            return spec
        return None


_installed = None


def unload():
    for k in list(sys.modules):
        if k == PKG or k.startswith(PKG + "."):
            del sys.modules[k]


def load(patches=None, stub_embed=True):
    """(Re)load the rewritten package from the working tree and return it."""
    global _installed
    unload()
    PATCHES.clear()
    if patches:
        PATCHES.update(patches)
    if _installed is None:
        _installed = _Finder(os.path.join(REPO, "src", PKG))
        sys.meta_path.insert(0, _installed)
    import gbigsmiles  # noqa

    if stub_embed:
        install_embed_stub(gbigsmiles)
    snapshot_state()
    return gbigsmiles


# --- process state -----------------------------------------------------------------
# Every explored path stands for a run in a fresh process.  Mutable module globals and class attributes of the package
# (caches, registries, "already warned" flags ...) are therefore put back to their import-time values before each path;
# state carried between calls WITHIN a path is exactly what the multi-step harnesses look for.

_STATE = []
_CACHED_FUNCS = []


def snapshot_state():
    import copy
    import inspect

    _STATE.clear()
    del _CACHED_FUNCS[:]
    simple = (type(None), bool, int, float, str)
    for mname, m in list(sys.modules.items()):
        if not (mname == PKG or mname.startswith(PKG + ".")) or m is None:
            continue
        owners = [m] + [v for v in vars(m).values() if inspect.isclass(v) and getattr(v, "__module__", None) == mname]
        for owner in owners:
            for name, val in list(vars(owner).items()):
                if type(val).__name__ == "_lru_cache_wrapper":
                    _CACHED_FUNCS.append(val)  # functools.lru_cache / cache: emptied before every path
                if name.startswith("__") or name.startswith("_sx_"):
                    continue
                if isinstance(val, (dict, list, set)) or (owner is m and isinstance(val, simple) and not name.isupper()):
                    try:
                        _STATE.append((owner, name, copy.deepcopy(val)))
                    except Exception:
                        pass


def restore_state():
    import copy

    for f in _CACHED_FUNCS:
        try:
            f.cache_clear()
        except Exception:
            pass

    for owner, name, val in _STATE:
        try:
            cur = getattr(owner, name, None)
            if type(cur) is type(val) and cur == val:
                continue
            if isinstance(val, dict) and isinstance(cur, dict):
                cur.clear()
                cur.update(copy.deepcopy(val))  # in place: other names bound to the same object stay in step
            elif isinstance(val, list) and isinstance(cur, list):
                cur[:] = copy.deepcopy(val)
            elif isinstance(val, set) and isinstance(cur, set):
                cur.clear()
                cur.update(copy.deepcopy(val))
            else:
                setattr(owner, name, copy.deepcopy(val))
        except Exception:
            pass


class _HybridNumpy:
    """real numpy, except that a few scalar functions go to the shim when an argument is a symbolic number"""

    _SCALAR = ("isclose", "allclose", "isnan", "isfinite", "isinf", "abs", "absolute", "sqrt", "exp", "log", "maximum", "minimum", "sign")

    def __init__(self, real):
        self._real = real

    def __getattr__(self, name):
        f = getattr(self._real, name)
        if name not in self._SCALAR:
            return f

        def call(*a, **k):
            if any(core.is_sym(x) for x in a) or any(core.is_sym(x) for x in k.values()):
                g_ = getattr(npshim.np, {"absolute": "abs"}.get(name, name))
                return g_(*a, **k)
            return f(*a, **k)

        return call


class _AllChemStub:
    def __init__(self, real):
        self._real = real

    def EmbedMolecule(self, mol, *a, **k):
        from rdkit.Chem import rdchem

        if mol is None:  # what rdkit does with a fragment that is no SMILES: Boost.Python.ArgumentError, a TypeError
            try:
                return self._real.EmbedMolecule(mol, *a, **k)
            except Exception as e:
                e._sx_emulated = True
                raise
        conf = rdchem.Conformer(mol.GetNumAtoms())
        mol.AddConformer(conf, assignId=True)
        return 0

    def UFFOptimizeMolecule(self, mol, *a, **k):
        return 0

    def __getattr__(self, name):
        return getattr(self._real, name)


class _ChemProxy:
    """Chem with MolFromSmiles that first forces symbolic text concrete."""

    def __init__(self, real):
        self._real = real

    def MolFromSmiles(self, smi, *a, **k):
        if isinstance(smi, symstr.SymStr):
            smi = symstr.concretise(smi)
        return self._real.MolFromSmiles(smi, *a, **k)

    def __getattr__(self, name):
        return getattr(self._real, name)


def install_embed_stub(pkg):
    mg = sys.modules[PKG + ".mol_gen"]
    if not isinstance(mg.AllChem, _AllChemStub):
        mg.AllChem = _AllChemStub(mg.AllChem)
    for name in ("atom", "mol_gen", "stochastic_atom_graph", "mol_prob"):
        m = sys.modules.get(PKG + "." + name)
        if m is not None and hasattr(m, "Chem") and not isinstance(m.Chem, _ChemProxy):
            m.Chem = _ChemProxy(m.Chem)


def functions_encoded(names):
    """helper for evidence: qualified names + source hashes"""
    return {"functions": names, "source_sha256_16": dict(SOURCE_HASHES)}
