"""Engine validation (DESIGN.md 3.4): not part of any claim, run with ./vf selftest.

 1. the AST-rewritten package behaves like the plain package on the concrete inputs of the repository's own tests
    (printing, extension-less printing, generation under a fixed numpy seed)
 2. the numpy shim agrees with numpy on random concrete vectors
 3. the Generator.choice contract assumed by SymRng (p >= 0, sum 1, zero-probability elements never drawn)
 4. the numeral contract: float(repr(x)) == x, int(str(n)) == n, printed numbers contain no scanner character
"""
from __future__ import annotations

import json
import os
import random
import subprocess
import sys
import warnings

HERE = os.path.dirname(os.path.dirname(os.path.abspath(__file__)))
REPO = os.environ.get("GBIGSMILES_REPO", "/repo")

PLAIN = r'''
import json, sys, warnings
warnings.simplefilter("ignore")
import numpy as np, gbigsmiles as g
texts = json.load(open(sys.argv[1]))
out = {}
for t in texts:
    try:
        m = g.System(t) if ".|" in t else g.Molecule(t)
        rec = {"str": str(m), "noext": m.generate_string(False), "generable": bool(m.generable)}
        if rec["generable"] and not ".|" in t:
            rec["smiles"] = m.generate(rng=np.random.default_rng(7)).smiles
    except Exception as e:
        rec = {"error": type(e).__name__}
    out[t] = rec
print(json.dumps(out))
'''


def main(arg=None, tier="quick"):
    warnings.simplefilter("ignore")
    sys.path.insert(0, HERE)
    from checks import corpus
    import numpy as np

    texts = []
    for f in ("test_molecule.py", "test_stochastic.py", "test_system.py"):
        texts += corpus.test_strings(f)
    texts = [t for t in texts if len(t) < 400][:14]
    import tempfile

    with tempfile.NamedTemporaryFile("w", suffix=".json", delete=False) as fh:
        json.dump(texts, fh)
        tf = fh.name
    env = dict(os.environ, PYTHONPATH=os.path.join(REPO, "src"))
    r = subprocess.run([sys.executable, "-c", PLAIN, tf], capture_output=True, text=True, env=env, timeout=3000)
    plain = json.loads(r.stdout.strip().splitlines()[-1])
    from . import loader

    g = loader.load(stub_embed=False)
    bad = 0
    for t in texts:
        try:
            m = g.System(t) if ".|" in t else g.Molecule(t)
            rec = {"str": str(m), "noext": m.generate_string(False), "generable": bool(m.generable)}
            if rec["generable"] and ".|" not in t:
                rec["smiles"] = m.generate(rng=np.random.default_rng(7)).smiles
        except Exception as e:
            rec = {"error": type(e).__name__}
        if rec != plain[t]:
            bad += 1
            print("MISMATCH rewritten vs plain:", t[:80], rec, plain[t])
    print(f"1. rewritten package == plain package on {len(texts)} test strings: {'ok' if not bad else f'{bad} mismatches'}")
    # 2. shim vs numpy
    from . import npshim

    rnd = random.Random(3)
    nb = 0
    for _ in range(500):
        n = rnd.randint(1, 6)
        v = [rnd.choice([0.0, 1.0, rnd.random() * 10]) for _ in range(n)]
        a, b = np.asarray(v), npshim.asarray(v)
        if bool(np.all(a == a[0])) != bool(npshim.all_(b == b[0])):
            nb += 1
        s = float(np.sum(a))
        if abs(s - float(npshim.sum_(b))) > 1e-12:
            nb += 1
        if s != 0:
            x, y = a / s, b / npshim.sum_(b)
            if any(abs(float(p) - float(q)) > 1e-12 for p, q in zip(x, y.v)):
                nb += 1
        else:
            y = b / npshim.sum_(b)
            if not all(q is npshim.NAN for q in y.v):
                nb += 1
    S = npshim.np
    for _ in range(300):
        n = rnd.randint(1, 6)
        v = [rnd.choice([0.0, 1.0, -2.5, rnd.random() * 10]) for _ in range(n)]
        w = [rnd.choice([0.0, 1.0, rnd.random() * 10]) for _ in range(n)]
        a, b = np.asarray(v), S.asarray(v)
        a2, b2 = np.asarray(w), S.asarray(w)
        idx = [rnd.randrange(n) for _ in range(rnd.randint(0, n))]
        mask = [rnd.random() < 0.5 for _ in range(n)]
        r = rnd.random() * 12 - 2
        pairs = [
            (np.cumsum(a), S.cumsum(b)), (np.argmax(a), S.argmax(b)), (np.argmin(a), S.argmin(b)), (np.max(a), S.max(b)), (np.min(a), S.min(b)),
            (np.abs(a), S.abs(b)), (np.where(a > 1, a, a2), S.where(b > 1, b, b2)), (np.flatnonzero(a), S.flatnonzero(b)),
            (a[idx], b[idx]), (a[np.asarray(mask)], b[S.asarray(mask)]), (np.clip(a, 0.5, 3), S.clip(b, 0.5, 3)), (np.maximum(a, a2), S.maximum(b, b2)),
            (np.minimum(a, 1.5), S.minimum(b, 1.5)), (np.dot(a, a2), S.dot(b, b2)), (np.prod(a), S.prod(b)), (np.mean(a), S.mean(b)),
            (np.searchsorted(np.cumsum(a2), r), S.searchsorted(S.cumsum(b2), r)), (np.searchsorted(np.cumsum(a2), r, side="right"), S.searchsorted(S.cumsum(b2), r, side="right")),
            (np.concatenate([a, a2]), S.concatenate([b, b2])), (np.count_nonzero(a), S.count_nonzero(b)), (-a, -b), (a ** 2, b ** 2),
            (np.array_equal(a, a2), S.array_equal(b, b2)), (np.allclose(a, a2), S.allclose(b, b2)), (np.zeros(n), S.zeros(n)), (np.ones_like(a), S.ones_like(b)),
            (np.arange(n), S.arange(n)),
        ]
        z, zs = np.zeros(n), S.zeros(n)
        z[idx] = a[idx]
        zs[idx] = b[idx]
        pairs.append((z, zs))
        z, zs = np.zeros(n), S.zeros(n)
        z[np.asarray(mask)] = 7
        zs[S.asarray(mask)] = 7
        pairs.append((z, zs))
        zi, zis = np.zeros(n, dtype=int), S.zeros(n, dtype=int)
        zi[:] = a
        zis[:] = b
        pairs.append((zi, zis))
        for x, y in pairs:
            xs = [float(q) for q in np.atleast_1d(x)]
            ys = [float(q) for q in (y.v if isinstance(y, npshim.Arr) else [y])]
            if len(xs) != len(ys) or any(abs(p - q) > 1e-9 for p, q in zip(xs, ys)):
                nb += 1
                print("SHIM MISMATCH", x, y)
    print(f"2. numpy shim vs numpy on 500 random vectors: {'ok' if not nb else f'{nb} mismatches'}")
    # 3. Generator.choice contract
    rng = np.random.default_rng(5)
    nc = 0
    for _ in range(300):
        n = rnd.randint(2, 5)
        w = [rnd.choice([0.0, rnd.random()]) for _ in range(n)]
        if sum(w) == 0:
            continue
        p = np.asarray(w) / sum(w)
        for _ in range(20):
            i = rng.choice(range(n), p=p)
            if p[i] == 0:
                nc += 1
    for badp in ([0.5, 0.6], [-0.1, 1.1], [float("nan"), 1.0]):
        try:
            rng.choice(2, p=badp)
            nc += 1
        except ValueError:
            pass
    print(f"3. Generator.choice contract (zero-probability never drawn; invalid p raises ValueError): {'ok' if not nc else f'{nc} violations'}")
    # 4. numeral contract
    nn = 0
    for _ in range(20000):
        x = rnd.choice([rnd.random(), rnd.uniform(-1e9, 1e9), rnd.random() * 10 ** rnd.randint(-300, 300), float(rnd.randint(-10**6, 10**6))])
        s = repr(x)
        if float(s) != x or any(ch in s for ch in "|[]{},;%$<> "):
            nn += 1
        k = rnd.randint(-10**12, 10**12)
        if int(str(k)) != k:
            nn += 1
        if s.endswith("."):
            nn += 1
    print(f"4. numeral contract on 20000 floats / ints: {'ok' if not nn else f'{nn} violations'}")
    os.unlink(tf)
    return 0 if not (bad or nb or nc or nn) else 3
