"""C16 — the reaction graph states the generator's probabilities, normalised at every node."""
from __future__ import annotations

import sys

from symx import core, gen
from symx.core import And, Or, Not

from . import corpus, gendrive
from .common import collector, explore_case
from .gendrive import rule, total, all_equal

PROPERTY = "C16"
FUNCTIONS = ["gbigsmiles.molecule.Molecule.gen_reaction_graph (incl. validate_graph)", "gbigsmiles.bond.BondDescriptor.is_compatible",
             "gbigsmiles.core.reaction_graph_to_dot_string (absence of exceptions only, concrete weights)"]
EXPLANATION = (
    "Molecule.gen_reaction_graph runs with every written positive weight / transition-list entry a solver variable in [1e-6,1e6] (zeros stay 0). "
    "On every path: node set = one per token and per descriptor object; for every descriptor node and each of prob / term_prob / trans_prob the z3 sum "
    "over its out-edges is 1 or no such edge exists; every edge value equals the reference selection law of C08 (w_r / sum of the weights of the "
    "compatible repeat-unit descriptors; end-group descriptors for term_prob; the next element's admissible descriptors for trans_prob; t_i / sum t for "
    "listed transitions towards the i-th descriptor in repeat-then-end order) as polynomial identities; the edge set is exactly the set of admissible "
    "partners of positive weight; residue->descriptor edges carry the attachment atom."
)
ASSUMPTIONS = ["for molecules with more than 10 descriptors the single weight value 1.0 is excluded from the symbolic range (the printers fork on weight != 1.0)", "python floats as reals", "weights in {0} u [1e-6,1e6] (the code replaces a total below 1e-16 by 1: excluded by the bound)",
               "networkx runs unmodified with proxies as edge attributes", "numpy in bond.py replaced by the list-backed shim"]
OUTSIDE = [
           "the dot export's text (run for absence of exceptions only)", "molecules beyond the skeleton list and the strings of tests/test_molecule.py, tests/test_stochastic.py"]
REQUIRED_LABELS = ["sum of prob is 1 or absent", "prob edge equals reference law", "trans_prob edge equals reference law", "edge set = admissible partners"]


def bounds(tier):
    return {"skeletons": len(_texts(tier)), "weights": "{0} u [1e-6, 1e6]"}


def _texts(tier):
    out = [(s["name"], s["text"]) for s in gendrive.SKELETONS]
    for i, t in enumerate(corpus.test_strings("test_stochastic.py")):
        out.append((f"test_stochastic[{i}]", t))
    # molecules that need not be generable: descriptors of the same symbol with different bond orders, ids
    out.append(("mixed-bond-orders", "{[] [$]CC[$], [$|2|]CC(=[$|0.25|])[$]; [$|2|]=O, [$|6|]=C, [$][H] []}"))
    out.append(("ids-and-orders", "{[] [<1]CC[>1], [<1|2|]CC(=[<2|0.5|])[>1]; [>2|3|]=O, [>1][H], [<1]F []}"))
    if tier == "thorough":
        for i, t in enumerate(corpus.test_strings("test_molecule.py")):
            out.append((f"test_molecule[{i}]", t))
    return out


def cases(tier):
    return [{"name": n, "text": t} for n, t in _texts(tier)]


def check_graph(P, g, mol, G):
    """P: prover with check(cond,label) / eq(a,b,label); the oracle proper (used symbolically and in replay)"""
    Stochastic = g.Stochastic
    elements = list(mol._elements)
    tokens, bds = [], []
    owner = {}  # bd -> (element index, token, class R/E/K)
    for ei, el in enumerate(elements):
        if isinstance(el, Stochastic):
            for t in el.repeat_tokens:
                tokens.append(t)
                for bd in t.bond_descriptors:
                    owner[bd] = (ei, t, "R")
                    bds.append(bd)
            for t in el.end_tokens:
                tokens.append(t)
                for bd in t.bond_descriptors:
                    owner[bd] = (ei, t, "E")
                    bds.append(bd)
        else:
            tokens.append(el)
            for bd in el.bond_descriptors:
                owner[bd] = (ei, el, "K")
                bds.append(bd)
    nodes = list(G.nodes())
    okn = len(nodes) == len(tokens) + len(bds) and all(t in G for t in tokens) and all(b in G for b in bds)
    P.check(okn, "one node per token and per bond descriptor")
    if not okn:
        return
    for t in tokens:
        out = list(G.out_edges(t, data=True))
        ok = all(("atom" in d and v in t.bond_descriptors and d["atom"] == v.atom_bonding_to) for _, v, d in out)
        exp = [bd for bd in t.bond_descriptors if not (bd.weight < 0)]
        P.check(ok and len(out) == len(exp), "residue->descriptor edges carry the attachment atom")

    def pos(w):
        r = w > 0
        return r if isinstance(r, bool) else bool(r)

    for d in bds:
        ei, tok, cls = owner[d]
        el = elements[ei]
        out = list(G.out_edges(d, data=True))
        for key in ("prob", "term_prob", "trans_prob"):
            vals = [dd[key] for _, _, dd in out if key in dd]
            if vals:
                tgt_w = [v.weight for _, v, dd in out if key in dd]
                allzero = all((w == 0) if isinstance(w == 0, bool) else bool(w == 0) for w in tgt_w)
                if allzero and key == "trans_prob":
                    # every admissible partner has weight zero: the generator picks uniformly (equal-weights rule), the graph
                    # writes 0 - a separate, specific obligation so that a finding here never hides another one
                    P.eq(total(vals), 1, "sum of trans_prob is 1 or absent (all admissible partners have weight zero)")
                else:
                    P.eq(total(vals), 1, f"sum of {key} is 1 or absent")
        # ---- inside a stochastic object
        prob_edges = {v: dd["prob"] for _, v, dd in out if "prob" in dd}
        term_edges = {v: dd["term_prob"] for _, v, dd in out if "term_prob" in dd}
        trans_edges = {v: dd["trans_prob"] for _, v, dd in out if "trans_prob" in dd}
        if isinstance(el, Stochastic):
            allb = list(el.repeat_bonds) + list(el.end_bonds)
            if d.transitions is not None:
                ts = list(d.transitions)
                S = total(ts)
                P.check(len(ts) == len(allb) and set(prob_edges) == set(allb[: len(ts)]), "edge set = admissible partners")
                for i, t in enumerate(ts):
                    if i < len(allb) and allb[i] in prob_edges:
                        P.check(prob_edges[allb[i]] * S == t, "prob edge equals reference law")
                P.check(not term_edges, "listed transitions replace the termination edges")
            else:
                rep = [b for b in el.repeat_bonds if rule(d, b)]
                end = [b for b in el.end_bonds if rule(d, b)]
                rep_pos = [b for b in rep if pos(b.weight)]
                end_pos = [b for b in end if pos(b.weight)]
                P.check(set(prob_edges) == set(rep_pos) and set(term_edges) == set(end_pos), "edge set = admissible partners")
                if rep_pos:
                    S = total([b.weight for b in rep])
                    for b in rep_pos:
                        if b in prob_edges:
                            P.check(prob_edges[b] * S == b.weight, "prob edge equals reference law")
                if end_pos:
                    S = total([b.weight for b in end])
                    for b in end_pos:
                        if b in term_edges:
                            P.check(term_edges[b] * S == b.weight, "term_prob edge equals reference law")
        else:
            P.check(not prob_edges and not term_edges, "tokens outside stochastic objects have no reaction edges")
        # ---- hand-over to the next element
        if ei + 1 < len(elements):
            nxt = elements[ei + 1]
            if isinstance(nxt, Stochastic):
                lt = nxt.left_terminal
                adm = [b for b in nxt.repeat_bonds if rule(d, b) and rule(b, lt)]
                src_ok = True
                if isinstance(el, Stochastic):
                    src_ok = cls == "R" and rule(d, el.right_terminal)
                if not src_ok:
                    adm = []
                P.check(set(trans_edges) == set(adm), "edge set = admissible partners")
                if adm:
                    ws = [b.weight for b in adm]
                    S = total(ws)
                    zero = S == 0
                    zero = zero if isinstance(zero, bool) else bool(zero)
                    for b in adm:
                        if b in trans_edges:
                            if zero:
                                pass  # all admissible weights are zero: outside the claim (see OUTSIDE)
                            else:
                                P.check(trans_edges[b] * S == b.weight, "trans_prob edge equals reference law")
            else:
                adm = [b for b in nxt.bond_descriptors if rule(d, b)]
                if isinstance(el, Stochastic):
                    if not (cls == "R" and rule(d, el.right_terminal)):
                        adm = []
                    adm = [b for b in adm if pos(b.weight)]
                P.check(set(trans_edges) == set(adm), "edge set = admissible partners")
                if isinstance(el, Stochastic) and len(adm) > 1:
                    # the token is attached by one of its fitting descriptors, picked in proportion to their weights
                    S = total([b.weight for b in adm])
                    for b in adm:
                        if b in trans_edges:
                            P.check(trans_edges[b] * S == b.weight, "trans_prob edge equals reference law")
                else:
                    for b in adm:
                        if b in trans_edges:
                            P.eq(trans_edges[b], 1, "trans_prob edge equals reference law")
        else:
            P.check(not trans_edges, "the last element has no transition edges")


class _SymP:
    def __init__(self, c, detail):
        self.c, self.detail = c, detail

    def check(self, cond, label):
        self.c.prove(cond, label, self.detail(label))

    def eq(self, a, b, label):
        self.c.prove(a == b, label, self.detail(label))


class _ConP:
    def __init__(self):
        self.failed = []
        self.count = 0

    def check(self, cond, label):
        self.count += 1
        if not bool(cond):
            self.failed.append(label)

    def eq(self, a, b, label):
        self.count += 1
        if abs(a - b) > 1e-9 * max(1.0, abs(a), abs(b)):
            self.failed.append(label)


def run_case(case, g, tier, res):
    on_path = collector(res, PROPERTY)
    text = case["text"]

    def h(c):
        mol = g.Molecule(text)
        many = len(gen.all_descriptors(mol)) > 10
        roles = gen.symbolize_weights(c, mol, avoid_one=many)

        def detail(label):
            def build(mv, c):
                vals = gendrive.role_values(c, mv, roles)
                return (f"C16:{label}", f"{label} [{case['name']}: {text}] weights={vals}",
                        {"kind": "graph", "text": text, "weights": vals, "label": label})
            return build

        P = _SymP(c, detail)
        try:
            G = mol.gen_reaction_graph()
        except RuntimeError as e:
            c.prove(False, "graph construction succeeds", detail(f"gen_reaction_graph raised {e}"))
            return
        check_graph(P, g, mol, G)
        # building the graph is a pure function of the molecule: weights untouched, a second graph is the same
        from .C01 import tree, tree_eq
        for role, bd in gen.all_descriptors(mol):
            if role in roles:
                want = roles[role]
                if isinstance(want, list):
                    ok = bd.transitions is not None and len(bd.transitions) == len(want) and And(*[x == y for x, y in zip(list(bd.transitions), want)])
                else:
                    ok = bd.weight == want
                c.prove(ok, "graph construction leaves the molecule unchanged", detail("gen_reaction_graph changed a weight of the molecule"))
        G2 = mol.gen_reaction_graph()
        P2 = _SymP(c, lambda label: detail("second call: " + label))
        check_graph(P2, g, mol, G2)
        # the graph of a derived object (the mirror, taken after the graph was drawn) is the graph of THAT object
        try:
            mir = mol.gen_mirror()
            G3 = mir.gen_reaction_graph() if mir is not None else None
        except RuntimeError:
            mir = None
        if mir is not None:
            P3 = _SymP(c, lambda label: detail("mirror after graph: " + label))
            check_graph(P3, g, mir, G3)
        return len(G)

    explore_case(res, h, tier, on_path=on_path)


def replay(rp, gb):
    mol = gb.Molecule(rp["text"])
    gendrive.apply_role_values(gen, mol, rp["weights"])
    P = _ConP()
    try:
        G = mol.gen_reaction_graph()
    except RuntimeError as e:
        return rp["label"].startswith("gen_reaction_graph raised") or rp["label"] == "graph construction succeeds", f"raised {e}"
    check_graph(P, gb, mol, G)
    before = str(mol)
    try:
        G2 = mol.gen_reaction_graph()
        P2 = _ConP()
        check_graph(P2, gb, mol, G2)
        P.failed += ["second call: " + x for x in P2.failed]
        mol2 = gb.Molecule(rp["text"])
        gendrive.apply_role_values(gen, mol2, rp["weights"])
        if str(mol) != str(mol2):
            P.failed.append("gen_reaction_graph changed a weight of the molecule")
        try:
            mir = mol.gen_mirror()
            G3 = mir.gen_reaction_graph() if mir is not None else None
        except RuntimeError:
            mir = None
        if mir is not None:
            P3 = _ConP()
            check_graph(P3, gb, mir, G3)
            P.failed += ["mirror after graph: " + x for x in P3.failed]
    except RuntimeError as e:
        P.failed.append("gen_reaction_graph changed a weight of the molecule")
    try:
        from gbigsmiles.core import reaction_graph_to_dot_string

        reaction_graph_to_dot_string(G, mol)
    except Exception as e:
        P.failed.append(f"dot export raised {type(e).__name__}")
    return rp["label"] in P.failed, f"failed: {sorted(set(P.failed))[:6]} of {P.count} obligations"
