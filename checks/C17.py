"""C17 — the stochastic atom graph encodes all atoms, static bonds and admissible links."""
from __future__ import annotations

import sys

from rdkit import Chem

from symx import core, gen
from symx.core import And, Or, Not

from . import corpus, gendrive
from .common import collector, explore_case
from .gendrive import rule, token_ref_cached

PROPERTY = "C17"
FUNCTIONS = ["gbigsmiles.stochastic_atom_graph.StochasticAtomGraph.generate / _add_token_element / _add_stochastic_element / _add_stochastic_bonds / "
             "_add_transition_bonds / _add_nodes_to_graph / _get_token_nodes", "gbigsmiles.stochastic_atom_graph._find_bd_token",
             "gbigsmiles.molecule.Molecule.gen_stochastic_atom_graph"]
EXPLANATION = (
    "StochasticAtomGraph.generate runs with every written positive weight / transition-list entry a solver variable. The result is compared with a graph "
    "built independently in the harness from the parsed structure and RDKit's reading of each token text (descriptors as dummy atoms): one node per atom "
    "with element, charge and aromaticity; static edges (both directions) per internal bond with its order; for every ordered pair of compatible "
    "descriptors of repeat units a stochastic edge carrying the partner's weight term (the listed entry where a list is written and positive); "
    "repeat-unit -> end-group termination edges; transition edges between consecutive elements that respect the terminal descriptors; no edge leaves an "
    "end group. Edge multisets are compared exactly, weight attributes as z3 terms. The structure (atoms, bonds) is concrete per molecule: this check "
    "quantifies over weights only."
)
ASSUMPTIONS = ["for molecules with more than 10 descriptors the single weight value 1.0 is excluded from the symbolic range (the printers fork on weight != 1.0)", "token chemistry and nesting shape are concrete per molecule; only weights are solver variables", "RDKit is trusted for atoms / bonds of each token",
               "weights in {0} u [1e-6,1e6]"]
OUTSIDE = ["everything about atoms / bonds is concrete per skeleton", "node attributes valence / hybridization (RDKit-derived, not part of the statement)"]
REQUIRED_LABELS = ["nodes: one per atom with element, charge, aromaticity", "static edges reproduce the internal bonds", "stochastic / termination edges", "transition edges"]


def bounds(tier):
    return {"molecules": len(_texts(tier)), "weights": "{0} u [1e-6,1e6]"}


def _texts(tier):
    out = [(s["name"], s["text"]) for s in gendrive.SKELETONS]
    out.append(("sz-two-blocks", "N{[<][<]CC[>][>]}|schulz_zimm(60,50)|{[<][<]CO[>][>]}|schulz_zimm(70, 50)|F"))
    out.append(("sz-endgroups", "{[][<]CC[>], [<|2|]CO[>]; [<]OC, [>]N[]}|schulz_zimm(60,50)|"))
    out.append(("two-id-families-adjacent", "C{[>1] [<1]CC([>1])c1ccccc1, [<2]CC([>2])C(=O)OC; [<2]Br [<1]}|schulz_zimm(1000, 900)|{[>1] [<1]CC([>1])O, [<2]CC([>2])N; [<1]F, [<2]Cl []}|schulz_zimm(500, 400)|"))
    out.append(("two-id-families-connector", "C{[>1] [<1]CC([>1])c1ccccc1, [<2]CC([>2])C(=O)OC; [<2]Br [<1]}|schulz_zimm(1000, 900)|[>1]CS[<1]{[>1] [<1]CC([>1])O, [<2]CC([>2])N; [<1]F, [<2]Cl []}|schulz_zimm(500, 400)|"))
    ts = corpus.test_strings("test_molecule.py")
    for i, t in enumerate(ts if tier == "thorough" else ts[:3]):
        out.append((f"test_molecule[{i}]", t.split(".|")[0]))
    return out


def cases(tier):
    return [{"name": n, "text": t} for n, t in _texts(tier)]


def reference_graph(g, mol):
    """list of nodes [(element, charge, aromatic)] and multiset of edges (u, v, kind, bond_type, weight)"""
    Stochastic = g.Stochastic
    nodes = []
    edges = []
    tok_offset = {}
    list_sources = set()
    known = []  # the RECORDED deviation for descriptors with a list: towards every compatible listed descriptor of positive
    #             entry both a stochastic and a termination edge (known finding); used to tell that deviation from any other

    def add_token(tok):
        ref = token_ref_cached(tok)
        frag = Chem.Mol(ref["frag"])
        try:
            Chem.SanitizeMol(frag)
        except Exception:
            frag.UpdatePropertyCache(strict=False)
        off = len(nodes)
        tok_offset[id(tok)] = off
        for a in frag.GetAtoms():
            nodes.append((a.GetAtomicNum(), a.GetFormalCharge(), a.GetIsAromatic()))
        for b in frag.GetBonds():
            x, y = b.GetBeginAtomIdx() + off, b.GetEndAtomIdx() + off
            edges.append((x, y, "static", int(b.GetBondType()), 1))
            edges.append((y, x, "static", int(b.GetBondType()), 1))
        return off

    def atom_of(tok, bd):
        k = list(tok.bond_descriptors).index(bd)
        ref = token_ref_cached(tok)
        return tok_offset[id(tok)] + ref["descriptors"][k][0]

    elements = list(mol._elements)
    for el in elements:
        if isinstance(el, Stochastic):
            for t in list(el.repeat_tokens) + list(el.end_tokens):
                add_token(t)
        else:
            add_token(el)

    def positive(w):
        r = w > 0
        return r if isinstance(r, bool) else bool(r)

    for el in elements:
        if not isinstance(el, Stochastic):
            continue
        allb = []
        for t in el.repeat_tokens:
            allb += [(t, b, "R") for b in t.bond_descriptors]
        for t in el.end_tokens:
            allb += [(t, b, "E") for b in t.bond_descriptors]
        for (t, d, cls) in allb:
            if cls == "E":
                continue  # no edge leaves an end group
            if d.transitions is not None:
                list_sources.add(atom_of(t, d))
                ts = list(d.transitions)
                for i, w in enumerate(ts):
                    if i >= len(allb):
                        continue
                    t2, d2, cls2 = allb[i]
                    if rule(d, d2) and positive(w):
                        edges.append((atom_of(t, d), atom_of(t2, d2), "stochastic" if cls2 == "R" else "termination", int(d.bond_type), w))
                        known.append((atom_of(t, d), atom_of(t2, d2), "stochastic", int(d.bond_type)))
                        known.append((atom_of(t, d), atom_of(t2, d2), "termination", int(d.bond_type)))
            else:
                for (t2, d2, cls2) in allb:
                    if rule(d, d2) and positive(d2.weight):
                        edges.append((atom_of(t, d), atom_of(t2, d2), "stochastic" if cls2 == "R" else "termination", int(d.bond_type), d2.weight))
                        known.append((atom_of(t, d), atom_of(t2, d2), "stochastic" if cls2 == "R" else "termination", int(d.bond_type)))
    for ei in range(len(elements) - 1):
        lhs, rhs = elements[ei], elements[ei + 1]
        if isinstance(lhs, Stochastic):
            L = [(t, b) for t in lhs.repeat_tokens for b in t.bond_descriptors if rule(b, lhs.right_terminal)]
        else:
            L = [(lhs, b) for b in lhs.bond_descriptors]
        if isinstance(rhs, Stochastic):
            R = [(t, b) for t in rhs.repeat_tokens for b in t.bond_descriptors if rule(b, rhs.left_terminal)]
        else:
            R = [(rhs, b) for b in rhs.bond_descriptors]
        for (t1, b1) in L:
            for (t2, b2) in R:
                if rule(b1, b2) and positive(b2.weight):  # zero-weight links can never be taken: immaterial
                    edges.append((atom_of(t1, b1), atom_of(t2, b2), "transition", int(b1.bond_type), b2.weight))
    return nodes, edges, (list_sources, known)


def code_graph(G):
    nodes = {}
    for n, d in G.nodes(data=True):
        nodes[n] = (d["atomic_num"], d["formal_charge"], d["aromatic"])
    edges = []
    for u, v, d in G.edges(data=True):
        kinds = []
        for k, attr in (("static", "static_weight"), ("stochastic", "stochastic_weight"), ("termination", "termination_weight"), ("transition", "transition_weight")):
            w = d[attr]
            nz = w != 0
            nz = nz if isinstance(nz, bool) else bool(nz)
            if nz:
                kinds.append((k, w))
        if len(kinds) == 1:
            edges.append((u, v, kinds[0][0], d["bond_type"], kinds[0][1]))
        elif not kinds:
            edges.append((u, v, "zero", d["bond_type"], 0))
        else:
            edges.append((u, v, "+".join(k for k, _ in kinds), d["bond_type"], kinds[0][1]))
    return nodes, edges


def compare(P, ref_nodes, ref_edges, nodes, edges, list_sources=()):
    known = []
    if isinstance(list_sources, tuple) and len(list_sources) == 2 and isinstance(list_sources[1], list):
        list_sources, known = list_sources
    P.check(len(nodes) == len(ref_nodes) and all(nodes.get(i) == ref_nodes[i] for i in range(len(ref_nodes))),
            "nodes: one per atom with element, charge, aromaticity")
    for kind, label in (("static", "static edges reproduce the internal bonds"), ("stochastic", "stochastic / termination edges"),
                        ("termination", "stochastic / termination edges"), ("transition", "transition edges")):
        a = sorted((u, v, bt) for u, v, k, bt, w in ref_edges if k == kind)
        b = sorted((u, v, bt) for u, v, k, bt, w in edges if k == kind)
        if kind in ("stochastic", "termination") and list_sources:
            # descriptors that carry a transition list are judged separately (own label)
            a1 = [e for e in a if e[0] not in list_sources]
            b1 = [e for e in b if e[0] not in list_sources]
            P.check(a1 == b1, label + f" ({kind}: same edge multiset)")
            P.check(a == b or a1 != b1, f"edges of descriptors with a transition list ({kind})")
            if a != b and a1 == b1:
                # the list part deviates from the statement: is it the recorded deviation, or something else?
                kL = sorted((u, v, bt) for u, v, k, bt in known if k == kind)
                P.check(b == kL, f"edges of descriptors with a transition list: other than the recorded deviation ({kind})")
        else:
            P.check(a == b, label + f" ({kind}: same edge multiset)")
        if a == b:
            # weights: match greedily per (u, v, bt)
            ra = {}
            for u, v, k, bt, w in ref_edges:
                if k == kind:
                    ra.setdefault((u, v, bt), []).append(w)
            rb = {}
            for u, v, k, bt, w in edges:
                if k == kind:
                    rb.setdefault((u, v, bt), []).append(w)
            for key in ra:
                for w1, w2 in zip(ra[key], rb[key]):
                    P.eq(w1, w2, label)
    other = [e for e in edges if e[2] not in ("static", "stochastic", "termination", "transition", "zero")]
    P.check(not other, "every edge has exactly one kind")


class _P:
    def __init__(self, c, detail):
        self.c, self.detail = c, detail

    def check(self, cond, label):
        self.c.prove(cond, label, self.detail(label), fatal=False)

    def eq(self, a, b, label):
        self.c.prove(a == b, label, self.detail(label), fatal=False)


class _CP:
    def __init__(self):
        self.failed = []

    def check(self, cond, label):
        if not bool(cond):
            self.failed.append(label)

    def eq(self, a, b, label):
        if abs(a - b) > 1e-9 * max(1.0, abs(a), abs(b)):
            self.failed.append(label)


def _is_sz(g, mol):
    sz = sys.modules["gbigsmiles.distribution"].SchulzZimm
    return all(isinstance(e.distribution, sz) for e in mol._elements if isinstance(e, g.Stochastic))


def run_case(case, g, tier, res):
    on_path = collector(res, PROPERTY)
    text = case["text"]

    def h(c):
        mol = g.Molecule(text)
        many = len(gen.all_descriptors(mol)) > 10
        roles = gen.symbolize_weights(c, mol, avoid_one=many)

        def detail(label):
            def build(mv, c):
                vals = gendrive.role_values(c, mv, roles)
                tag = next((f"@{s_['sigtag']}" for s_ in gendrive.SKELETONS if s_["name"] == case["name"] and s_.get("sigtag")), "")
                return (f"C17:{label.split(' (')[0]}{tag}", f"{label} [{case['name']}: {text}] weights={vals}", {"kind": "sag", "text": text, "weights": vals, "label": label})
            return build

        P = _P(c, detail)
        try:
            sag = mol.gen_stochastic_atom_graph(_is_sz(g, mol))
        except Exception as e:
            core.reraise_if_harness(e)
            c.prove(False, "graph construction succeeds", detail(f"gen_stochastic_atom_graph raised {type(e).__name__}"))
            return
        rn, re_, ls = reference_graph(g, mol)
        n, e = code_graph(sag.graph)
        compare(P, rn, re_, n, e, ls)
        # building the graph again on the same object gives the same graph
        sag.generate()
        n2, e2 = code_graph(sag.graph)
        c.prove(n2 == n and len(e2) == len(e) and sorted((u, v, k, bt) for u, v, k, bt, w in e2) == sorted((u, v, k, bt) for u, v, k, bt, w in e),
                "second generate() gives the same graph", detail("a second generate() on the same object gives another graph"), fatal=False)
        # the graph of the mirror, taken after the graph of the molecule was built, is the mirror's own graph
        try:
            mir = mol.gen_mirror()
            msag = mir.gen_stochastic_atom_graph(_is_sz(g, mol)) if mir is not None else None
        except Exception as ex:
            core.reraise_if_harness(ex)
            mir = None
        if mir is not None:
            PM = _P(c, detail)  # same obligations (and signatures) as for the molecule itself, on the mirror
            mrn, mre, mls = reference_graph(g, mir)
            mn, me = code_graph(msag.graph)
            compare(PM, mrn, mre, mn, me, mls)
        return len(n), len(e)

    explore_case(res, h, tier, on_path=on_path)


def replay(rp, gb):
    mol = gb.Molecule(rp["text"])
    gendrive.apply_role_values(gen, mol, rp["weights"])
    P = _CP()
    try:
        sag = mol.gen_stochastic_atom_graph(_is_sz(gb, mol))
    except Exception as e:
        return "raised" in rp["label"], f"raised {type(e).__name__}: {e}"
    rn, re_, ls = reference_graph(gb, mol)
    n, e = code_graph(sag.graph)
    compare(P, rn, re_, n, e, ls)
    try:
        sag.generate()
        n2, e2 = code_graph(sag.graph)
        if not (n2 == n and sorted((u, v, k, bt) for u, v, k, bt, w in e2) == sorted((u, v, k, bt) for u, v, k, bt, w in e)):
            P.failed.append("a second generate() on the same object gives another graph")
    except Exception as ex:
        P.failed.append("a second generate() on the same object gives another graph")
    try:
        mir = mol.gen_mirror()
        msag = mir.gen_stochastic_atom_graph(_is_sz(gb, mol)) if mir is not None else None
    except Exception:
        mir = None
    if mir is not None:
        PM = _CP()
        mrn, mre, mls = reference_graph(gb, mir)
        mn, me = code_graph(msag.graph)
        compare(PM, mrn, mre, mn, me, mls)
        P.failed += PM.failed
    return rp["label"] in P.failed, f"failed: {sorted(set(P.failed))}"
