"""C10 — generation is a pure, reproducible function of string and supplied generator."""
from __future__ import annotations

import copy
import sys

from symx import core, gen
from symx.core import And, Or, Not
from symx.rng import SymRng

from . import gendrive
from .C01 import tree, tree_eq
from .C18 import FixedRng
from .common import collector, explore_case

PROPERTY = "C10"
FUNCTIONS = ["gbigsmiles.molecule.Molecule.generate / generate_string / elements / residues / gen_mirror / gen_reaction_graph / gen_stochastic_atom_graph / generable",
             "gbigsmiles.stochastic.Stochastic.generate", "gbigsmiles.token.SmilesToken.generate", "gbigsmiles.mol_gen.MolGen.__init__ / attach_other",
             "gbigsmiles.core.choose_compatible_weight", "gbigsmiles.core._GLOBAL_RNG (state)"]
EXPLANATION = (
    "Self-composition. Run A: a freshly parsed instance generates with a symbolic stream sigma (every rng.choice outcome explored, drawn targets fresh reals, "
    "weights symbolic). Run B: another instance parsed from the same string, after a history h of operations (generate with another stream, str, "
    "extension-less print, reaction graph, stochastic atom graph, mirror, elements, residues, generable, parsing a further instance, draws on the "
    "library's global generator) applied to it or to a third instance, generates with the same sigma (same picks, same targets). On every path of A and "
    "every history: B offers the same candidates, yields the same canonical SMILES and mass; after every operation the structural digest of every parsed "
    "object (all attributes of all elements / tokens / descriptors, symbolic weights as terms), its printed forms and generability, the class attribute "
    "BigSMILESbase.bond_descriptors and - whenever a generator was supplied - the state of the global generator are unchanged."
)
ASSUMPTIONS = ["Distribution.draw_mw stubbed (same targets handed to both runs)", "embed / UFF stubbed", "python-level state only: hash randomisation, threads, process state are outside"]
OUTSIDE = ["histories longer than 1 (quick) / 2 (thorough) operations between the two generations (each history also contains run A itself)", "System.generator (cannot be handed a generator)", "force-field typing inside histories (covered by C20)"]
REQUIRED_LABELS = ["same molecule after any history", "same options and probabilities at every decision after any history", "parsed object unchanged by the operation", "global generator untouched"]

SK = ["homo-prefix-suffix", "left-terminal-list", "endgroup-initiated", "chain-stopper-unit", "list-to-endgroup-mixed", "dead-end-endgroup", "left-terminal-list-with-endgroup-entry", "block-with-connector", "random-copolymer-weighted", "star-three-descriptors"]
SECOND = [0, 3, 4, 5, 9, 11]  # generate, reaction-graph, atom-graph, mirror, parse-again, generate-same-stream
OPS = ["generate", "str", "print-without-extensions", "reaction-graph", "atom-graph", "mirror", "elements", "residues", "generable", "parse-again", "global-rng-draw",
       "generate-same-stream", "mirror-generate"]


def bounds(tier):
    return {"skeletons": SK if tier == "thorough" else SK[:8], "history length": "1 (quick); thorough: 1 at N=2 and 2 at N=1 with the second operation from {generate, reaction-graph, atom-graph, mirror, parse-again}",
            "operations": OPS, "units per block": 1 if tier == "quick" else 2}


def cases(tier):
    out = []
    sk = [s for s in gendrive.SKELETONS if s["name"] in (SK if tier == "thorough" else SK[:8])]
    for s in sk:
        for first in range(len(OPS)):
            if tier == "quick" and s["name"] == "list-to-endgroup-mixed" and first not in (0, 3, 11):
                continue  # two units per block are expensive: the quick tier keeps three operations for this skeleton
            # (the list of 'list-to-endgroup-mixed' is only consulted for the second unit)
            out.append({"name": f"{s['name']}/h1/first={OPS[first]}", "skel": s, "hl": 1, "first": first,
                        "N": 2 if (tier != "quick" or s["name"] == "list-to-endgroup-mixed") else 1})
    out.append({"name": "static-initiator/result-used-as-prefix", "kind": "prefix-reuse"})
    if tier == "thorough":
        # two operations between the generations (second one from the state-changing candidates), N = 1
        for s in sk[:3]:
            for first in range(len(OPS)):
                out.append({"name": f"{s['name']}/h2/first={OPS[first]}", "skel": s, "hl": 2, "first": first, "N": 1, "second": SECOND})
    return out


def deep_state(o, keys=None, seen=None, depth=0):
    """every attribute of every object of the package reachable from o, as nested lists (cycles and shared objects by their
    first-visit number, so that aliasing is part of the state).  keys: {object number: attribute names} fixes the attributes
    that are looked at (those the object had when it was parsed: attributes added later are caches, not parsed state)."""
    from symx.npshim import Arr
    from symx.symstr import SymStr

    if seen is None:
        seen = {}
    if o is None or isinstance(o, (bool, int, float, str, SymStr)) or core.is_sym(o):
        return o
    if depth > 12:
        return "..."
    if isinstance(o, Arr):
        return [deep_state(x, keys, seen, depth + 1) for x in o.v]
    if isinstance(o, (list, tuple)):
        return [deep_state(x, keys, seen, depth + 1) for x in o]
    if isinstance(o, dict):
        return [[str(k), deep_state(v, keys, seen, depth + 1)] for k, v in sorted(o.items(), key=lambda kv: str(kv[0]))]
    tn = type(o).__name__
    if type(o).__module__.startswith("numpy"):
        try:
            return [deep_state(x, keys, seen, depth + 1) for x in o.tolist()] if hasattr(o, "tolist") and getattr(o, "ndim", 0) else float(o)
        except Exception:
            return tn
    if type(o).__module__.startswith("gbigsmiles"):
        if id(o) in seen:
            return ["ref", seen[id(o)]]
        n = seen[id(o)] = len(seen)
        names = sorted(vars(o)) if hasattr(o, "__dict__") else []
        if keys is not None:
            if n in keys:
                names = [k for k in keys[n] if k in vars(o)] + [f"<missing {k}>" for k in keys[n] if k not in vars(o)]
            else:
                keys[n] = list(names)
        return [tn] + [[k, deep_state(vars(o).get(k), keys, seen, depth + 1)] for k in names]
    if tn in ("Mol", "RWMol"):
        from rdkit import Chem

        try:
            return Chem.MolToSmiles(o)
        except Exception:
            return tn
    return tn  # foreign objects (scipy distributions, rdkit enums ...) by type; enums compare below by str
    

def digest(g, mol, keys=None):
    core_mod = sys.modules["gbigsmiles.core"]
    return (tree(mol, g), tuple(core_mod.BigSMILESbase.bond_descriptors),
            [(getattr(e, "_raw_text", None)) for e in mol._elements], deep_state(mol, keys))


def apply_roles(mol, roles):
    for role, bd in gen.all_descriptors(mol):
        if role in roles:
            v = roles[role]
            if isinstance(v, list):
                from symx.npshim import Arr

                bd.transitions = Arr(list(v))
                bd.weight = bd.transitions.sum()
            else:
                bd.weight = v


def run_op(c, g, op, mol, stream_seed, same=None):
    """one history operation on an instance; returns nothing.  same = (picks, targets, others) of run A for the operations
    that repeat its stream"""
    if op == 11:
        # the instance generates with the very stream of run A (same string, same seed, same instance, once more)
        picks, targets, others = same
        gen.DRAW_FN[0] = gen.scripted_draw(list(targets))
        try:
            mol.generate(rng=FixedRng(picks, others))
        except gendrive.ReplayDone:
            pass
        return
    if op == 12:
        # the mirror of the instance is taken and generated (it shares nothing with the instance)
        mir = mol.gen_mirror()
        if mir is not None and mir.generable:
            gen.DRAW_FN[0] = gen.scripted_draw([30.0 + stream_seed] * 8)
            try:
                mir.generate(rng=FixedRng([0] * 300))
            except gendrive.ReplayDone:
                pass
            except Exception as e:
                if c is not None:
                    core.reraise_if_harness(e)
        return
    if op == 0:
        gen.DRAW_FN[0] = gen.scripted_draw([30.0 + stream_seed] * 8)
        try:
            mol.generate(rng=FixedRng([0] * 300))
        except gendrive.ReplayDone:
            pass
    elif op == 1:
        mol.generate_string(True)
    elif op == 2:
        mol.generate_string(False)
    elif op == 3:
        mol.gen_reaction_graph()
    elif op == 4:
        mol.gen_stochastic_atom_graph(False)
    elif op == 5:
        mol.gen_mirror()
    elif op == 6:
        mol.elements
    elif op == 7:
        mol.residues
    elif op == 8:
        mol.generable
    elif op == 9:
        g.Molecule(mol._raw_text)
    elif op == 10:
        sys.modules["gbigsmiles.core"]._GLOBAL_RNG.random(3)


INITIATOR = "OCC[>]"
GROWER = "{[>][<]CC[>], [<]CO[>]; [<][H][]}|gauss(50,5)|"


def run_prefix_reuse(case, g, tier, res):
    """the molecule a static (single-token) initiator generated is handed on as prefix of another generation (which grows it in
    place): later generations of the initiator instance, and of other instances of the same string, are unaffected"""
    on_path = collector(res, PROPERTY)

    def h(c):
        A = g.Molecule(INITIATOR)
        ra = A.generate(rng=FixedRng([0] * 10))
        smiA, wA = ra.smiles, ra.weight
        sA = (str(A), A.generate_string(False), A.generable)
        P = g.Molecule(GROWER)
        roles = gen.symbolize_weights(c, P)
        obs = gen.Observer()
        gen.install_observers(g, obs)
        gen.OBS[0] = obs
        gen.DRAW_FN[0] = gen.symbolic_draw(gendrive.block_bounds(g, P, 2))
        rng = SymRng()

        def detail(what):
            def build(mv, c):
                return (f"C10:{what}", f"{what} [{INITIATOR} used as prefix of {GROWER}] picks={[r.index for r in rng.calls]}",
                        {"kind": "prefix-reuse", "weights": gendrive.role_values(c, mv, roles), "picks": [r.index for r in rng.calls],
                         "targets": [float(c.eval_in(mv, t)) for (_, t, _) in obs.draws], "what": what})
            return build

        try:
            grown = P.generate(prefix=ra, rng=rng)
        finally:
            gen.OBS[0] = None
        for who, inst in (("the same instance", A), ("another instance of the same string", g.Molecule(INITIATOR))):
            r2 = inst.generate(rng=FixedRng([0] * 10))
            c.prove(r2.smiles == smiA and r2.weight == wA, "same molecule after any history",
                    detail(f"{who} generates another molecule after an earlier result was used as a prefix"))
        c.prove((str(A), A.generate_string(False), A.generable) == sA, "printed forms and generability unchanged", detail("printed form changed"))
        return grown.smiles

    explore_case(res, h, tier, on_path=on_path, budget_s=600)


def run_case(case, g, tier, res):
    if case.get("kind") == "prefix-reuse":
        return run_prefix_reuse(case, g, tier, res)
    on_path = collector(res, PROPERTY)
    skel, hl, first, N = case["skel"], case["hl"], case["first"], case["N"]
    text = skel["text"]
    core_mod = sys.modules["gbigsmiles.core"]

    def h(c):
        # ---- run A
        A = g.Molecule(text)
        roles = gen.symbolize_weights(c, A)
        obs = gen.Observer()
        gen.install_observers(g, obs)
        gen.OBS[0] = obs
        gen.DRAW_FN[0] = gen.symbolic_draw(gendrive.block_bounds(g, A, N))
        rng = SymRng()
        from symx import npshim
        grng = SymRng()
        npshim.GLOBAL_RANDOM_HOOK[0] = grng
        state0 = copy.deepcopy(core_mod._GLOBAL_RNG.bit_generator.state)
        keysA = {}
        dA0 = digest(g, A, keysA)
        hist = []

        def detail(what):
            def build(mv, c):
                picks = [r.index for r in rng.calls]
                targets = [float(c.eval_in(mv, t)) for (_, t, _) in obs.draws]
                return (f"C10:{what}", f"{what} [{skel['name']}: {text}] history={[(OPS[o], w) for o, w in hist]} picks={picks} targets={targets}",
                        {"kind": "history", "text": text, "weights": gendrive.role_values(c, mv, roles), "history": [[o, w] for o, w in hist],
                         "picks": picks, "targets": targets, "what": what})
            return build

        gA0 = A.generable
        try:
            ra = A.generate(rng=rng)
        except Exception as e:
            core.reraise_if_harness(e)
            # a generation that ends in an exception (a dead end of the notation) is still only a READ of the parsed object
            gen.OBS[0] = None
            dA1 = digest(g, A, keysA)
            c.prove(And(tree_eq(dA1[0], dA0[0]), dA1[1:3] == dA0[1:3], tree_eq(dA1[3], dA0[3]), A.generable == gA0),
                    "parsed object unchanged by a generation that raised", detail("a generation that raised changed the parsed object"))
            return f"raised {type(e).__name__}"
        finally:
            gen.OBS[0] = None
        smiA, wA = ra.smiles, ra.weight
        c.prove(all(r is rng for (_, _, r) in obs.draws) and len(obs.draws) == len(set(id(d) for (d, _, _) in obs.draws)),
                "every draw uses the supplied generator, once per block", detail("a target mass is drawn from another generator than the supplied one (or twice)"))
        dA1 = digest(g, A, keysA)
        c.prove(And(tree_eq(dA1[0], dA0[0]), dA1[1:3] == dA0[1:3], tree_eq(dA1[3], dA0[3])), "parsed object unchanged by the operation", detail("generate changed the parsed object"))
        c.prove(core_mod._GLOBAL_RNG.bit_generator.state == state0 and len(grng.calls) + len(grng.other_calls) == 0, "global generator untouched",
                detail("generate with a supplied generator consumed the global generator"))
        picks = [r.index for r in rng.calls]
        targets = [t for (_, t, _) in obs.draws]
        # ---- history on B / third instance
        B = g.Molecule(text)
        apply_roles(B, roles)
        T = g.Molecule(text)
        apply_roles(T, roles)
        keysB = {}
        dB0 = digest(g, B, keysB)
        sB0, eB0, gB0 = B.generate_string(True), B.generate_string(False), B.generable
        for k in range(hl):
            if k == 0:
                op = first
            else:
                cand = case.get("second") or list(range(len(OPS)))
                op = cand[c.fresh_int(f"op{k}", 0, len(cand) - 1).__index__()]
            on = c.fresh_int(f"on{k}", 0, 1).__index__()
            hist.append((op, on))
            st = copy.deepcopy(core_mod._GLOBAL_RNG.bit_generator.state)
            try:
                run_op(c, g, op, B if on == 0 else T, k, same=(picks, targets, rng.other_calls))
            except Exception as e:
                core.reraise_if_harness(e)
                # (the fixed picks of the plain 'generate' operation may select an option of probability zero: its exceptions mean nothing)
                c.prove(op != 11, "a repeated generation does not raise", detail(f"{OPS[op]} raised {type(e).__name__} on an instance that generated before"))
            if op != 10:
                c.prove(core_mod._GLOBAL_RNG.bit_generator.state == st, "global generator untouched", detail(f"{OPS[op]} consumed the global generator"))
            dB1 = digest(g, B, keysB)
            c.prove(And(tree_eq(dB1[0], dB0[0]), dB1[1:3] == dB0[1:3], tree_eq(dB1[3], dB0[3])), "parsed object unchanged by the operation", detail(f"{OPS[op]} changed a parsed object"))
        c.prove(And(B.generate_string(True) == sB0, B.generate_string(False) == eB0, B.generable == gB0), "printed forms and generability unchanged",
                detail("printed form / generability changed by the history"))
        # ---- run B with the same stream
        gen.DRAW_FN[0] = gen.scripted_draw(list(targets))
        frng = FixedRng(picks, rng.other_calls)
        try:
            rb = B.generate(rng=frng)
            smiB, wB = rb.smiles, rb.weight
        except gendrive.ReplayDone:
            smiB, wB = None, None
        except Exception as e:
            core.reraise_if_harness(e)
            smiB, wB = f"raised {type(e).__name__}", None
        c.prove(smiB == smiA and wB == wA, "same molecule after any history", detail("the same string and stream give another molecule after this history"))
        # the second run must also have been offered the same options with the same probabilities at every decision
        recA = [(r.n, r.p) for r in rng.calls]
        recB = frng.records
        shape = len(recA) == len(recB) and all(na == nb and (pa is None) == (pb is None) and (pa is None or len(pa) == len(pb))
                                                for (na, pa), (nb, pb) in zip(recA, recB))
        eqs = [x == y for (na, pa), (nb, pb) in zip(recA, recB) if pa is not None and pb is not None and len(pa) == len(pb) for x, y in zip(pa, pb)] if shape else []
        c.prove(shape and And(*eqs), "same options and probabilities at every decision after any history",
                detail("the same string and stream are offered other options / probabilities after this history"))
        return smiA

    explore_case(res, h, tier, on_path=on_path, budget_s=900)


def replay(rp, gb):
    import numpy as np
    from gbigsmiles import core as gcore

    if rp.get("kind") == "prefix-reuse":
        A = gb.Molecule(INITIATOR)
        ra = A.generate(rng=FixedRng([0] * 10))
        smiA, wA = ra.smiles, ra.weight
        P = gb.Molecule(GROWER)
        gendrive.apply_role_values(gen, P, rp["weights"])
        gen.install_observers(gb, gen.Observer())
        gen.DRAW_FN[0] = gen.scripted_draw(list(rp["targets"]))
        try:
            P.generate(prefix=ra, rng=gendrive.ScriptedRng(rp["picks"]))
        except gendrive.ReplayDone:
            return False, "stream ended"
        bad = []
        for inst in (A, gb.Molecule(INITIATOR)):
            r2 = inst.generate(rng=FixedRng([0] * 10))
            if r2.smiles != smiA or abs(r2.weight - wA) > 1e-9:
                bad.append(r2.smiles)
        return bool(bad), f"initiator generated {smiA} first, later {bad}"

    text = rp["text"]

    def fresh():
        m = gb.Molecule(text)
        gendrive.apply_role_values(gen, m, rp["weights"])
        return m

    obs = gen.Observer()
    gen.install_observers(gb, obs)
    gen.OBS[0] = obs
    A = fresh()
    gen.DRAW_FN[0] = gen.scripted_draw(list(rp["targets"]))
    problems = []
    st0 = copy.deepcopy(gcore._GLOBAL_RNG.bit_generator.state)
    s0 = str(A)
    keysA = {}
    dA = _plain_digest(gb, A, keysA)
    gA0 = A.generable
    try:
        A_rng = gendrive.ScriptedRng(rp["picks"])
        ra = A.generate(rng=A_rng)
    except gendrive.ReplayDone:
        return False, "stream ended"
    except Exception as e:
        if rp["what"].startswith("a generation that raised"):
            bad = str(A) != s0 or _plain_digest(gb, A, keysA) != dA or A.generable != gA0
            return bad, f"generate raised {type(e).__name__}; generable {gA0} -> {A.generable}; parsed object changed: {bad}"
        raise
    if str(A) != s0 or _plain_digest(gb, A, keysA) != dA:
        problems.append("generate changed the parsed object")
    rngA = None
    if any(r is None or not isinstance(r, gendrive.ScriptedRng) for (_, _, r) in obs.draws) or len(obs.draws) != len(set(id(d) for (d, _, _) in obs.draws)):
        problems.append("a target mass is drawn from another generator than the supplied one (or twice)")
    if gcore._GLOBAL_RNG.bit_generator.state != st0:
        problems.append("global generator consumed")
    gen.OBS[0] = None
    B, T = fresh(), fresh()
    sB = (str(B), B.generate_string(False), B.generable)
    keysB = {}
    dB = _plain_digest(gb, B, keysB)
    for k, (op, on) in enumerate(rp["history"]):
        st = copy.deepcopy(gcore._GLOBAL_RNG.bit_generator.state)
        try:
            run_op(None, gb, op, B if on == 0 else T, k, same=(rp["picks"], rp["targets"], []))
        except Exception as e:
            if op == 11:
                problems.append(f"{OPS[op]} raised {type(e).__name__} on an instance that generated before")
        if op != 10 and gcore._GLOBAL_RNG.bit_generator.state != st:
            problems.append(f"{OPS[op]} consumed the global generator")
        if _plain_digest(gb, B, keysB) != dB:
            problems.append(f"{OPS[op]} changed a parsed object")
    if (str(B), B.generate_string(False), B.generable) != sB:
        problems.append("printed form changed")
    gen.DRAW_FN[0] = gen.scripted_draw(list(rp["targets"]))
    try:
        B_rng = gendrive.ScriptedRng(rp["picks"])
        rb = B.generate(rng=B_rng)
        same = rb.smiles == ra.smiles and abs(rb.weight - ra.weight) < 1e-9
    except Exception as e:
        same = False
        problems.append(f"second run raised {type(e).__name__}")
    if not same:
        problems.append("another molecule after the history")
    try:
        ca, cb = A_rng.calls, B_rng.calls
        if len(ca) != len(cb) or any(x.n != y.n or (x.p is None) != (y.p is None) or (x.p is not None and (len(x.p) != len(y.p) or any(
                abs(u - v) > 1e-9 * max(1.0, abs(u)) for u, v in zip(x.p, y.p)))) for x, y in zip(ca, cb)):
            problems.append("other options / probabilities after the history")
    except Exception as e:
        problems.append(f"comparison of the decisions failed: {type(e).__name__}")
    if rp["what"].startswith("a target mass is drawn"):
        return any(p.startswith("a target mass is drawn") for p in problems), f"{problems}"
    return bool(problems), f"{problems}"


def _plain_digest(gb, mol, keys=None):
    from .C01 import _plain

    return repr(_plain(tree(mol, gb))) + repr(deep_state(mol, keys))
