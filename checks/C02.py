"""C02 — parsing recovers exactly the structure the notation denotes."""
from __future__ import annotations

import itertools
import re
import sys

import z3
from rdkit import Chem

from symx import core, symstr
from symx.core import And, Or, Not, SymInt
from symx.symstr import SymStr, SymChar, Num, fresh_char

from .common import collector, explore_case
from . import gendrive
from .gendrive import token_reference

PROPERTY = "C02"
FUNCTIONS = [
    "gbigsmiles.token.SmilesToken.__init__ (scanner + binding phase)", "gbigsmiles.token._push_pop_atom_branch",
    "gbigsmiles.token.SmilesToken.generate_string / generate_smiles_fragment", "gbigsmiles.bond.BondDescriptor.__init__",
    "gbigsmiles.stochastic.Stochastic.__init__", "gbigsmiles.molecule.Molecule.__init__", "gbigsmiles.mixture.Mixture.__init__",
    "gbigsmiles.distribution.get_distribution + the six constructors", "gbigsmiles.atom.Atom.__init__",
]
EXPLANATION = (
    "Token level: a token is a sequence of K slots; the positions of 1-3 bond descriptors are fixed per case, every other slot is a symbolic "
    "character over 'C ( ) = #', the descriptor symbols are symbolic over '$ < >'; the SMILES validity rule (adjacency table, balanced "
    "branches at every prefix, a descriptor bonds exactly one atom) is assumed as a z3 precondition before the real SmilesToken constructor runs. "
    "On every path z3 proves that each descriptor's binding atom and bond order equal those of an independent reference binder that follows the "
    "OpenSMILES branch rule on the same symbolic slots (the code branches on counts of parentheses, the reference on their order), that the atom count "
    "agrees and that printing reproduces the text; one model per path is cross-checked against RDKit with the descriptors replaced by "
    "isotope-labelled dummy atoms ('exactly as if the descriptor were an atom written at that position'). Descriptor level: symbol, id digits, "
    "weight / weight list as numerals -> parsed attributes equal the written values, default weight 1, list total = sum. Stochastic / molecule / "
    "distribution / mixture level: templates printed from a structured description with symbolic numerals, terminals and separators -> the parsed "
    "attribute tree equals the description."
)
ASSUMPTIONS = ["numeral atoms: float(repr(x)) == x, int(str(n)) == n, a printed number contains none of the scanner's characters",
               "RDKit is trusted as the meaning of SMILES (cross-check of the reference binder on one model per path)",
               "atom letters other than C do not influence binding (the scanner treats all single-letter atoms alike); bracket atoms and two-letter atoms are covered by concrete templates"]
OUTSIDE = ["tokens longer than K slots", "ring closures at token level (concrete templates only)", "stereo characters", "aromatic ring perception"]
REQUIRED_LABELS = ["descriptor binds to the atom the SMILES denotes", "descriptor bond order is the one written", "atoms recovered"]

ALPHA = "C()=#"


def bounds(tier):
    return {"K (slots per token)": 7 if tier == "quick" else 9, "descriptors per token": "1..3", "alphabet of the other slots": ALPHA,
            "descriptor symbols": "$ < >"}


def cases(tier):
    out = []
    kmax = 7 if tier == "quick" else 9
    for K in range(2, kmax + 1):
        for nd in (1, 2, 3):
            if nd >= K:
                continue
            for pos in itertools.combinations(range(K), nd):
                # adjacent descriptors can never be valid (a descriptor is followed by ')' or ends the token), except D first? no.
                if any(b - a == 1 for a, b in zip(pos, pos[1:])):
                    continue
                out.append({"name": f"token/K{K}/D{'-'.join(map(str, pos))}", "kind": "token", "K": K, "pos": list(pos)})
    out.append({"name": "descriptor-text", "kind": "descriptor"})
    for i in range(len(TEMPLATES)):
        out.append({"name": f"structure/{i}", "kind": "structure", "i": i})
    out.append({"name": "concrete-tokens", "kind": "concrete"})
    out.append({"name": "mixture-specification", "kind": "mixture"})
    out.append({"name": "parse-after-near-twin", "kind": "twin"})
    return out


# ---------------------------------------------------------------------------
# token level


def _is(item, ch):
    if isinstance(item, str):
        return item == ch
    return core.SymBool(item.e == ord(ch))


def valid_precondition(slots):
    """z3 formula over the slot characters: SMILES validity with descriptors ('D') as terminal pseudo-atoms"""
    K = len(slots)
    conds = []

    def cls(i, chars):
        s = slots[i]
        if s == "D":
            return "D" in chars
        opts = [ch for ch in chars if ch != "D"]
        if not opts:
            return False
        return Or(*[_is(s, ch) for ch in opts])

    # first / last
    conds.append(cls(0, "CD"))
    conds.append(cls(K - 1, "C)D"))
    follow = {"C": "C()=#D", "(": "C=#D", ")": "C()=#D", "=": "CD", "#": "CD"}
    for i in range(K - 1):
        if slots[i] == "D":
            conds.append(cls(i + 1, "C=#" if i == 0 else ")"))
        else:
            for ch, nxt in follow.items():
                conds.append(core.Implies(_is(slots[i], ch), cls(i + 1, nxt)))
    # descriptor needs an atom to bind to: not first -> previous is anything (grammar above guarantees an atom exists before)
    # balance
    depth = z3.IntVal(0)
    for i in range(K):
        if slots[i] == "D":
            continue
        depth = depth + z3.If(slots[i].e == ord("("), 1, 0) - z3.If(slots[i].e == ord(")"), 1, 0)
        conds.append(core.SymBool(depth >= 0))
    conds.append(core.SymBool(depth == 0))
    # at least one atom
    conds.append(Or(*[_is(s, "C") for s in slots if s != "D"]))
    # a first-slot descriptor binds to the first atom: the atom must come before any branch closes (guaranteed by balance)
    return And(*conds)


def reference_binder(chars):
    """chars: concrete list of 'C','(',')','=','#','D'.  OpenSMILES branch rule."""
    cur = None
    stack = []
    pending = 1
    natoms = 0
    out = []
    first_pending = None
    for ch in chars:
        if ch == "D":
            if cur is None:
                first_pending = len(out)
                out.append([0, None])
            else:
                out.append([cur, pending])
            pending = 1
        elif ch == "C":
            if first_pending is not None and out[first_pending][1] is None:
                out[first_pending][1] = pending
            cur = natoms
            natoms += 1
            pending = 1
        elif ch == "(":
            stack.append(cur)
        elif ch == ")":
            cur = stack.pop()
            pending = 1
        elif ch == "=":
            pending = 2
        elif ch == "#":
            pending = 3
    return out, natoms


def run_token_case(case, g, tier, res, on_path):
    K, pos = case["K"], case["pos"]
    ST = g.SmilesToken

    def h(c):
        slots = []
        syms = []
        for i in range(K):
            if i in pos:
                slots.append("D")
            else:
                slots.append(fresh_char(f"s{i}", ALPHA))
        c.assume(valid_precondition(slots))
        parts = []
        for i, s in enumerate(slots):
            if s == "D":
                sc = fresh_char(f"d{i}", "$<>")
                syms.append(sc)
                parts += ["[", sc, "]"]
            else:
                parts.append(s)
        text = SymStr.of(*parts)

        def conc(mv):
            out = []
            for it in text.items:
                out.append(it if isinstance(it, str) else chr(c.eval_in(mv, SymInt(it.e))))
            return "".join(out)

        def detail(label):
            def build(mv, c):
                t = conc(mv)
                shape = "".join("D" if ch in "$<>" else ch for ch in t.replace("[", "").replace("]", ""))
                return (f"C02:token:{label}", f"SmilesToken({t!r}): {label}", {"kind": "token", "text": t, "label": label})
            return build

        try:
            tok = ST(text, 0, 0)
        except RuntimeError as e:
            c.prove(False, "valid token accepted", detail(f"a valid token is rejected"))
            return "rejected"
        # reference on the (now largely decided) slots: concretise what is left (forks)
        chars = []
        for s in slots:
            if s == "D":
                chars.append("D")
            else:
                chars.append(chr(c.concretise_int(s.e)))
        ref, natoms = reference_binder(chars)
        c.prove(len(tok.atoms) == natoms, "atoms recovered", detail("number of atoms differs"))
        c.prove(len(tok.bond_descriptors) == len(ref), "descriptors recovered", detail("number of descriptors differs"))
        if len(tok.bond_descriptors) == len(ref):
            for k, (bd, (ra, ro)) in enumerate(zip(tok.bond_descriptors, ref)):
                c.prove(bd.atom_bonding_to == ra, "descriptor binds to the atom the SMILES denotes", detail("a descriptor is attached to the wrong atom"))
                c.prove(int(bd.bond_type) == ro, "descriptor bond order is the one written", detail("a descriptor gets the wrong bond order"))
                c.prove(bd.descriptor == SymStr((syms[k],)), "descriptor symbol recovered", detail("descriptor symbol differs"))
                c.prove(And(bd.weight == 1.0, bd.transitions is None, bd.descriptor_id == ""), "default weight 1, no id", detail("default weight / id differs"))
        c.prove(tok.generate_string(True) == text, "token prints to its text", detail("printing a token does not reproduce its text"))
        # cross-check the reference binder against RDKit on this path's model
        mv = c.model_values()
        t = conc(mv)
        try:
            rr = token_reference(t)
            ok = [list(x) for x in rr["descriptors"]] == [[a, Chem.BondType.values[o]] for a, o in ref] and len(rr["real"]) == natoms
        except Exception:
            ok = False
        if not ok:
            raise core.HarnessBug(f"reference binder disagrees with RDKit (or precondition admits an invalid token) on {t!r}: {ref}")
        return "".join(chars)

    explore_case(res, h, tier, on_path=on_path)


# ---------------------------------------------------------------------------
# descriptor level (symbol, id, weights as written)


def run_descriptor_case(case, g, tier, res, on_path):
    BD = g.BondDescriptor

    def h(c):
        sym = fresh_char("sym", "$<>")
        nid = c.fresh_int("nid", 0, 3).__index__()
        digits = [fresh_char(f"d{i}", "0123456789") for i in range(nid)]
        lead = c.fresh_int("lead_blank", 0, 1).__index__() if nid else 0
        wform = c.fresh_int("wform", 0, 3).__index__()  # 0 none 1 scalar 2 list2 3 list3
        parts = ["[", sym] + [" "] * lead + digits
        ws = []
        if wform == 1:
            ws = [c.fresh_real("w")]
            parts += ["|", " " * c.fresh_int("b1", 0, 1).__index__(), Num(ws[0], "float"), "|"]
        elif wform >= 2:
            ws = [c.fresh_real(f"t{i}") for i in range(wform)]
            parts.append("|")
            for i, w in enumerate(ws):
                if i:
                    parts.append(" ")
                parts.append(Num(w, "float"))
            parts.append("|")
        parts.append("]")
        text = SymStr.of(*parts)

        def detail(label):
            def build(mv, c):
                out = []
                for it in text.items:
                    if isinstance(it, str):
                        out.append(it)
                    elif isinstance(it, Num):
                        from symx.symstr import render_num

                        out.append(render_num(it, c.eval_in(mv, it.v)))
                    else:
                        out.append(chr(c.eval_in(mv, SymInt(it.e))))
                t = "".join(out)
                return (f"C02:descriptor:{label}", f"BondDescriptor({t!r}): {label}", {"kind": "descriptor", "text": t, "label": label})
            return build

        bd = BD(text, 3, "", 5)
        c.prove(bd.descriptor == SymStr((sym,)), "descriptor symbol recovered", detail("symbol differs"))
        if nid:
            e = z3.IntVal(0)
            for d in digits:
                e = e * 10 + (d.e - 48)
            c.prove(bd.descriptor_id == SymInt(e), "descriptor id recovered", detail("id differs from the written digits"))
        else:
            c.prove(bd.descriptor_id == "", "descriptor id recovered", detail("id invented"))
        if wform == 0:
            c.prove(And(bd.weight == 1.0, bd.transitions is None), "weight recovered", detail("default weight is not 1"))
        elif wform == 1:
            c.prove(And(bd.weight == ws[0], bd.transitions is None), "weight recovered", detail("weight differs from the written number"))
        else:
            ok = bd.transitions is not None and len(bd.transitions) == len(ws)
            c.prove(ok, "weight recovered", detail("transition list length differs"))
            if ok:
                c.prove(And(*[x == y for x, y in zip(list(bd.transitions), ws)], bd.weight == sum(ws, 0.0)), "weight recovered",
                        detail("list weight total is not the sum of the list"))
        c.prove(And(bd.descriptor_num == 3, bd.atom_bonding_to == 5, int(bd.bond_type) == 1), "position arguments kept", detail("descriptor number / atom / bond type differ"))
        return wform

    explore_case(res, h, tier, on_path=on_path)


# ---------------------------------------------------------------------------
# structure level: templates printed from a description; numerals, terminal symbols, blanks symbolic

TEMPLATES = [
    # (prefix, left terminal, repeat units, end groups, right terminal, distribution family, nparams, suffix)
    dict(prefix="N", lt="<", rus=["[<]CC[>]"], egs=[], rt=">", dist="gauss", suffix="O"),
    dict(prefix="", lt="", rus=["[$]CC[$]", "[$]CO[$]"], egs=["[$][H]"], rt="", dist="flory_schulz", suffix=""),
    dict(prefix="", lt="", rus=["[<]CC[>]"], egs=["[<]O", "[>]N"], rt="", dist="schulz_zimm", suffix=""),
    dict(prefix="C", lt="$", rus=["[$]CC[$]"], egs=[], rt="$", dist="uniform", suffix="O"),
    dict(prefix="N", lt="<", rus=["[<]CC([>])c1ccccc1", "[<]C[N+](C)(C)[>]"], egs=[], rt=">", dist="log_normal", suffix="[Si]"),
    dict(prefix="", lt="", rus=["[<]CC[>]"], egs=["[<]Cl", "[>]Br"], rt="", dist="poisson", suffix=""),
    dict(prefix="CC(C)", lt=">", rus=["[<]CC[>]"], egs=[], rt="<", dist="gauss", suffix="OC(=O)C"),
    dict(prefix="CC(C)(C)", lt="$", rus=["[$]CC[$]"], egs=[], rt="$", dist="gauss", suffix="NC(=O)"),
]
NPAR = {"gauss": 2, "flory_schulz": 1, "schulz_zimm": 2, "uniform": 2, "log_normal": 2, "poisson": 1}


def run_structure_case(case, g, tier, res, on_path):
    T = TEMPLATES[case["i"]]

    def h(c):
        blanks = lambda name: " " * c.fresh_int(name, 0, 1).__index__()
        params = []
        for i in range(NPAR[T["dist"]]):
            if T["dist"] == "uniform":
                params.append(c.fresh_int(f"p{i}", 1, 10**6))
            else:
                params.append(c.fresh_real(f"p{i}", 1e-3, 1e6))
        if T["dist"] == "uniform":
            c.assume(params[0] <= params[1])  # equal bounds are accepted and must come back as written
        if T["dist"] == "schulz_zimm":
            c.assume(params[0] > params[1])
        if T["dist"] == "flory_schulz":
            c.assume(params[0] < 1)
        # number-format variant of the weights: canonical float print, or an integer literal with a trailing dot ('2.')
        tdot = c.fresh_bool("trailing_dot_weights")
        if tdot:
            wts = [c.fresh_int(f"w{i}", 0, 10**6) for i in range(len(T["rus"]))]
        else:
            wts = [c.fresh_real(f"w{i}", 0, 1e6) for i in range(len(T["rus"]))]
        parts = [T["prefix"], "{", "[" + T["lt"] + "]", blanks("b0")]
        for i, ru in enumerate(T["rus"]):
            if i:
                parts += [",", blanks(f"bs{i}")]
            # weight on the last descriptor of each repeat unit
            k = ru.rfind("]")
            if tdot:
                parts += [ru[:k], "|", Num(wts[i], "int"), ".", "|", ru[k:]]
            else:
                parts += [ru[:k], "|", Num(wts[i], "float"), "|", ru[k:]]
        if T["egs"]:
            parts += [blanks("b1"), ";", blanks("b2")]
            parts.append((", ").join(T["egs"]))
        parts += [blanks("b3"), "[" + T["rt"] + "]", "}", "|", T["dist"], "("]
        for i, p in enumerate(params):
            if i:
                parts += [",", blanks(f"bp{i}")]
            parts.append(Num(p, "int" if T["dist"] == "uniform" else "float"))
        parts += [")", "|", T["suffix"]]
        text = SymStr.of(*[p for p in parts if p != ""])

        def detail(label):
            def build(mv, c):
                out = []
                for it in text.items:
                    if isinstance(it, str):
                        out.append(it)
                    elif isinstance(it, Num):
                        v = c.eval_in(mv, it.v)
                        from symx.symstr import render_num

                        out.append(render_num(it, v))
                    else:
                        out.append(chr(c.eval_in(mv, SymInt(it.e))))
                t = "".join(out)
                return (f"C02:structure:{label}", f"Molecule({t!r}): {label}", {"kind": "structure", "text": t, "label": label, "template": case["i"]})
            return build

        try:
            mol = g.Molecule(text)
        except Exception as e:
            core.reraise_if_harness(e)
            if tdot:
                c.prove(False, "valid notation accepted", detail("a weight written with a trailing dot ('2.') makes the molecule unparseable"))
            else:
                c.prove(False, "valid notation accepted", detail("a valid molecule is rejected"))
            return "rejected"
        els = mol._elements
        kinds = [type(e).__name__ for e in els]
        exp = (["SmilesToken"] if T["prefix"] else []) + ["Stochastic"] + (["SmilesToken"] if T["suffix"] else [])
        c.prove(kinds == exp, "order and kind of elements", detail("order / kind of elements differs"))
        if kinds != exp:
            return
        st = els[1 if T["prefix"] else 0]
        c.prove(st.left_terminal.descriptor == T["lt"] and st.right_terminal.descriptor == T["rt"], "terminal descriptors", detail("terminal descriptors differ"))
        c.prove(len(st.repeat_tokens) == len(T["rus"]) and len(st.end_tokens) == len(T["egs"]), "repeat units and end groups", detail("number of repeat units / end groups differs"))
        for i, tok in enumerate(st.repeat_tokens[: len(T["rus"])]):
            c.prove(tok.bond_descriptors[-1].weight == wts[i], "written weights recovered", detail("a written weight is lost"))
            c.prove(tok.generate_string(False) == T["rus"][i], "token text recovered", detail("a repeat unit's text differs"))
        for i, tok in enumerate(st.end_tokens[: len(T["egs"])]):
            c.prove(tok.generate_string(False) == T["egs"][i], "token text recovered", detail("an end group's text differs"))
        # descriptors the parser adds to a prefix / suffix written without one sit where a following / preceding atom would bond
        for tok_, text_, front in ((els[0], T["prefix"], False), (els[-1], T["suffix"], True)):
            if text_ and type(tok_).__name__ == "SmilesToken" and tok_.bond_descriptors:
                rr = token_reference("[1*]" + text_ if front else text_ + "[1*]")
                want = rr["descriptors"][0][0]
                bd_ = tok_.bond_descriptors[0] if front else tok_.bond_descriptors[-1]
                c.prove(bd_.atom_bonding_to == want, "added descriptor sits on the atom a neighbouring atom would bond to",
                        detail("the descriptor added to a prefix / suffix token sits on another atom than the one the text continues from"))
        d = st.distribution
        fam = {"gauss": "Gauss", "flory_schulz": "FlorySchulz", "schulz_zimm": "SchulzZimm", "uniform": "Uniform", "log_normal": "LogNormal", "poisson": "Poisson"}[T["dist"]]
        c.prove(type(d).__name__ == fam, "distribution family", detail("distribution family differs"))
        attrs = {"Gauss": ("_mu", "_sigma"), "FlorySchulz": ("_a",), "SchulzZimm": ("_Mw", "_Mn"), "Uniform": ("_low", "_high"), "LogNormal": ("_M", "_D"), "Poisson": ("_N",)}[fam]
        if type(d).__name__ == fam:
            for a, p in zip(attrs, params):
                c.prove(getattr(d, a) == p, "distribution parameters in documented order", detail("a distribution parameter differs from the written one"))
        return kinds

    explore_case(res, h, tier, on_path=on_path)


def run_twin_case(case, g, tier, res, on_path):
    """parsing is free of history: a text is parsed after a near twin of it (same characters, white space inside |...| moved:
    the list '|1 2|' next to the scalar '|12|') and must be read exactly as on its own"""

    def h(c):
        d1 = fresh_char("d1", "123456789")
        d2 = fresh_char("d2", "0123456789")
        level = c.fresh_int("level", 0, 2).__index__()  # 0 descriptor, 1 token, 2 stochastic object
        first_list = bool(c.fresh_bool("list_first"))
        wl = SymStr.of("|", d1, " ", d2, "|")
        ws = SymStr.of("|", d1, d2, "|")

        def text(w):
            if level == 0:
                return SymStr.of("[<", w, "]")
            if level == 1:
                return SymStr.of("[<", w, "]CC[>]")
            return SymStr.of("{[][<", w, "]CC[>]; [<][H], [>]F[]}")

        def make(t):
            return g.BondDescriptor(t, 0, "", 0) if level == 0 else g.SmilesToken(t, 0, 0) if level == 1 else g.Stochastic(t, 0)

        def bd_of(o):
            return o if level == 0 else o.bond_descriptors[0] if level == 1 else o.repeat_tokens[0].bond_descriptors[0]

        tl, ts = text(wl), text(ws)
        order = [tl, ts] if first_list else [ts, tl]

        def detail(label):
            def build(mv, c):
                from symx.symstr import model_text

                seq = [model_text(c, mv, t) for t in order]
                return (f"C02:twin:{label}", f"parsing {seq[0]!r} and then {seq[1]!r} (level {level}): {label}", {"kind": "twin", "seq": seq, "level": level, "label": label})
            return build

        objs = []
        for t in order:
            try:
                objs.append(make(t))
            except Exception as e:
                core.reraise_if_harness(e)
                if level == 2 and t is tl:
                    objs.append(None)  # a list of 2 entries on an object with 4 descriptors is rejected, with or without history
                    continue
                c.prove(False, "valid notation accepted", detail("a valid text is rejected after its twin was parsed"))
                return "rejected"
        v1 = core.SymInt(d1.e - 48)
        v2 = core.SymInt(d2.e - 48)
        for t, o in zip(order, objs):
            if o is None:
                continue
            bd = bd_of(o)
            if t is tl:
                ok = bd.transitions is not None and len(bd.transitions) == 2
                c.prove(ok, "list weight read after a twin", detail("a list weight is not read as a list after its scalar twin was parsed"))
                if ok:
                    c.prove(And(bd.transitions[0] == v1, bd.transitions[1] == v2, bd.weight == v1 + v2), "list weight read after a twin",
                            detail("a list weight differs from the written entries after its scalar twin was parsed"))
            else:
                c.prove(bd.transitions is None and bd.weight == v1 * 10 + v2, "scalar weight read after a twin", detail("a scalar weight is not read as written after its list twin was parsed"))
        return "ok"

    explore_case(res, h, tier, on_path=on_path)


def run_mixture_case(case, g, tier, res, on_path):
    """the mixture specification: '.|<number>|' is an absolute mass, '.|<number>%|' a percentage, in every spelling of the number"""

    def h(c):
        pct = bool(c.fresh_bool("percent"))
        style = (None, "plain", "sci", "sci-short", "sci-upper", "int")[c.fresh_int("spelling", 0, 5).__index__()]
        if style == "int":
            v = c.fresh_int("m", 1, 100 if pct else 10**9)
            num = Num(v, "int")
        else:
            v = c.fresh_real("m", 0, 100 if pct else None, lo_strict=not pct)  # a percentage of exactly 0 is a value like any other
            num = Num(v, "float", style)
        via = c.fresh_int("via", 0, 2).__index__()
        b = " " * c.fresh_int("blank", 0, 1).__index__()
        spec = SymStr.of(".|", b, num, "%|" if pct else "|")
        text = spec if via == 0 else SymStr.of("CC", spec) if via == 1 else SymStr.of("CC", spec, "C")

        def detail(label):
            def build(mv, c):
                from symx.symstr import model_text

                t = model_text(c, mv, text)
                return (f"C02:mixture:{label}", f"{['Mixture', 'Molecule', 'System'][via]}({t!r}): {label}",
                        {"kind": "mixture", "text": t, "via": via, "pct": bool(pct), "value": float(c.eval_in(mv, v)), "label": label})
            return build

        try:
            obj = g.Mixture(text) if via == 0 else g.Molecule(text) if via == 1 else g.System(text)
        except Exception as e:
            core.reraise_if_harness(e)
            c.prove(False, "valid notation accepted", detail("a valid mixture specification is rejected"))
            return "rejected"
        mix = obj if via == 0 else obj.mixture if via == 1 else obj._molecules[0].mixture
        c.prove(mix is not None, "mixture specification recovered", detail("the mixture specification is lost"))
        if pct:
            c.prove(mix.relative_mass == v, "mixture specification recovered", detail("the written percentage is not recovered"))
            if via != 2:
                c.prove(mix.absolute_mass is None, "mixture specification recovered", detail("a percentage is read as an absolute mass"))
        else:
            c.prove(mix.absolute_mass == v, "mixture specification recovered", detail("the written absolute mass is not recovered"))
        return "ok"

    explore_case(res, h, tier, on_path=on_path)


# ---------------------------------------------------------------------------
# concrete templates: bracket atoms, two-letter atoms, rings, against RDKit

CONCRETE = [
    "C=1([$])CCCC1[$]", "[$]CC([$])C=1CCCCC1", "[$]C1=CCCC1[$]",
    "[$]CC([$])C#N", "[$]C([H])(C#N)[$]", "[$]CC(C[$])(c1ccccc1)", "[$][Si]CC(c1ccccc1)[$]", "[<]C(=O)c1ccc(cc1)C(=O)[<]",
    "CC([>])(C[<])C(=O)OCC(O)CSc1c(F)cccc1F", "[<]CCl", "Br[>]", "[<]C1CC1[>]", "[>]C(Cl)(Br)C[<]", "[$]C[N+](C)(C)[$]", "C(=[$])C",
    "[<]CC(C)([>])C(=O)OC", "[<]C(C)(C)C(C)(C)[>]", "[$]C(C)(C)(C)", "C([<])(C)(C)[>]", "[<]CC(c1ccccc1)(C)[>]",
    "[$]CC([$])C(=O)O[C@H](C)CC", "[$]CC([$])C(=O)O[C@@H](C)CC", "[<][C@@H](C)C(=O)O[>]", "[<]C[13CH2][>]", "[$][CH2][CH2][$]", "[$]C([2H])([2H])[$]",
    "[<]C[NH+](C)C[>]", "[$]C[C@](F)(Cl)[$]",
]


def run_concrete_case(case, g, tier, res, on_path):
    def h(c):
        i = c.fresh_int("which", 0, len(CONCRETE) - 1).__index__()
        t = CONCRETE[i]
        ref = token_reference(t)

        def detail(label):
            def build(mv, c):
                return (f"C02:token:{label}", f"SmilesToken({t!r}): {label}", {"kind": "token", "text": t, "label": label})
            return build

        try:
            tok = g.SmilesToken(t, 0, 0)
        except RuntimeError:
            c.prove(False, "valid token accepted", detail("a valid token is rejected"))
            return
        c.prove(len(tok.atoms) == len(ref["real"]), "atoms recovered", detail("number of atoms differs"))
        c.prove(_atoms_match(tok, ref, t), "atoms recovered", detail("an atom differs from the written one"))
        for bd, (ra, ro) in zip(tok.bond_descriptors, ref["descriptors"]):
            c.prove(bd.atom_bonding_to == ra, "descriptor binds to the atom the SMILES denotes", detail("a descriptor is attached to the wrong atom"))
            c.prove(bd.bond_type == ro, "descriptor bond order is the one written", detail("a descriptor gets the wrong bond order"))
        return t

    explore_case(res, h, tier, on_path=on_path)


_WRITTEN_ATOM = re.compile(r"\[[^\]]*\]|Cl|Br|[BCNOPSFIbcnops]")


def written_atoms(text):
    """the atoms of a token text in the order they are written (bond descriptors removed first)"""
    return _WRITTEN_ATOM.findall(gendrive._BD.sub("", text))


def _single(t):
    am = Chem.MolFromSmiles(t if len(t) > 1 or t.isupper() else t.upper(), sanitize=False)
    if am is None or am.GetNumAtoms() != 1:
        return None
    am.UpdatePropertyCache(strict=False)
    return am.GetAtomWithIdx(0)


def _atoms_match(tok, ref, text=None):
    """every recorded atom is the element / charge RDKit reads at that position of the text; a bracket atom also keeps the
    isotope, the hydrogen count and the chirality mark it is written with"""
    m = ref["with_dummies"]
    if len(tok.atoms) != len(ref["real"]):
        return False
    written = written_atoms(text) if text is not None else None
    if written is not None and len(written) != len(tok.atoms):
        written = None
    for k, (a, idx) in enumerate(zip(tok.atoms, ref["real"])):
        t = str(a.generate_string(False))
        x, y = _single(t), m.GetAtomWithIdx(idx)
        if x is None:
            return False
        if x.GetAtomicNum() != y.GetAtomicNum() or x.GetFormalCharge() != y.GetFormalCharge():
            return False
        if written is not None and written[k].startswith("["):
            w = _single(written[k])
            if w is None:
                continue
            if x.GetIsotope() != w.GetIsotope() or x.GetTotalNumHs() != w.GetTotalNumHs() or t.count("@") != written[k].count("@"):
                return False
    return True


def run_case(case, g, tier, res):
    on_path = collector(res, PROPERTY)
    {"token": run_token_case, "descriptor": run_descriptor_case, "structure": run_structure_case, "concrete": run_concrete_case,
     "mixture": run_mixture_case, "twin": run_twin_case}[case["kind"]](case, g, tier, res, on_path)


# ---------------------------------------------------------------------------


def classify_token(text):
    """signature helper for the known-findings file: which shape of the token fails"""
    return text


def replay(rp, gb):
    if rp["kind"] == "token":
        t = rp["text"]
        ref = token_reference(t)
        try:
            tok = gb.SmilesToken(t, 0, 0)
        except RuntimeError as e:
            return True, f"valid token rejected: {e}"
        bad = []
        if len(tok.atoms) != len(ref["real"]):
            bad.append("atom count")
        elif not _atoms_match(tok, ref, t):
            bad.append("an atom differs from the written one")
        if len(tok.bond_descriptors) != len(ref["descriptors"]):
            bad.append("descriptor count")
        for k, (bd, (ra, ro)) in enumerate(zip(tok.bond_descriptors, ref["descriptors"])):
            if bd.atom_bonding_to != ra:
                bad.append(f"descriptor {k} bound to atom {bd.atom_bonding_to}, SMILES denotes {ra}")
            if bd.bond_type != ro:
                bad.append(f"descriptor {k} bond order {bd.bond_type}, written {ro}")
        if str(tok) != t:
            bad.append("print differs")
        return bool(bad), f"{t}: {bad} (reference: RDKit with descriptors as dummy atoms: {ref['smiles']})"
    if rp["kind"] == "descriptor":
        t = rp["text"]
        bd = gb.BondDescriptor(t, 3, "", 5)
        body = t[2:-1]
        wtxt = None
        if "|" in body:
            wtxt = body[body.index("|") + 1: body.rindex("|")]
            body = body[: body.index("|")]
        bad = []
        if bd.descriptor != t[1]:
            bad.append("symbol")
        if (bd.descriptor_id == "") != (body.strip() == "") or (body.strip() and bd.descriptor_id != int(body)):
            bad.append("id")
        if wtxt is None:
            if bd.weight != 1.0 or bd.transitions is not None:
                bad.append("default weight")
        else:
            ws = [float(x) for x in wtxt.split()]
            if len(ws) == 1 and (bd.weight != ws[0] or bd.transitions is not None):
                bad.append("weight")
            if len(ws) > 1 and (bd.transitions is None or list(bd.transitions) != ws or abs(bd.weight - sum(ws)) > 1e-9 * max(1, abs(sum(ws)))):
                bad.append("list weight")
        return bool(bad), f"{t}: {bad}"
    if rp["kind"] == "twin":
        import re as _re

        level = rp["level"]
        bad = []
        for t in rp["seq"]:
            try:
                o = gb.BondDescriptor(t, 0, "", 0) if level == 0 else gb.SmilesToken(t, 0, 0) if level == 1 else gb.Stochastic(t, 0)
            except Exception as e:
                if not (level == 2 and " " in _re.search(r"\|([^|]*)\|", t).group(1)):
                    bad.append(f"{t!r} rejected: {type(e).__name__}")
                continue
            bd = o if level == 0 else o.bond_descriptors[0] if level == 1 else o.repeat_tokens[0].bond_descriptors[0]
            body = _re.search(r"\|([^|]*)\|", t).group(1)
            if " " in body:
                want = [float(x) for x in body.split()]
                if bd.transitions is None or list(bd.transitions) != want or abs(bd.weight - sum(want)) > 1e-9:
                    bad.append(f"{t!r}: list read as weight={bd.weight} transitions={bd.transitions}")
            elif bd.transitions is not None or bd.weight != float(body):
                bad.append(f"{t!r}: scalar read as weight={bd.weight} transitions={bd.transitions}")
        return bool(bad), f"{bad}"
    if rp["kind"] == "mixture":
        t, via = rp["text"], rp["via"]
        try:
            obj = gb.Mixture(t) if via == 0 else gb.Molecule(t) if via == 1 else gb.System(t)
        except Exception as e:
            return "rejected" in rp["label"], f"{t!r} rejected: {type(e).__name__}: {e}"
        mix = obj if via == 0 else obj.mixture if via == 1 else obj._molecules[0].mixture
        if mix is None:
            return True, "mixture specification lost"
        got = mix.relative_mass if rp["pct"] else mix.absolute_mass
        bad = got is None or abs(got - rp["value"]) > 1e-9 * max(1.0, abs(rp["value"])) or (rp["pct"] and via != 2 and mix.absolute_mass is not None)
        return bad, f"{t!r}: written {rp['value']}{'%' if rp['pct'] else ''}, parsed relative={mix.relative_mass} absolute={mix.absolute_mass}"
    if rp["kind"] == "structure":
        T = TEMPLATES[rp["template"]]
        try:
            mol = gb.Molecule(rp["text"])
        except Exception as e:
            return "rejected" in rp["label"] or "unparseable" in rp["label"], f"{rp['text']} rejected: {type(e).__name__}: {e}"
        els = mol._elements
        st = [e for e in els if type(e).__name__ == "Stochastic"]
        bad = []
        if len(st) != 1:
            return True, "no stochastic element"
        st = st[0]
        if [t.generate_string(False) for t in st.repeat_tokens] != T["rus"] or [t.generate_string(False) for t in st.end_tokens] != T["egs"]:
            bad.append("tokens")
        if st.left_terminal.descriptor != T["lt"] or st.right_terminal.descriptor != T["rt"]:
            bad.append("terminals")
        import re

        m = re.search(T["dist"] + r"\(([^)]*)\)", rp["text"])
        ps = [float(x) for x in m.group(1).split(",")]
        fam = {"gauss": "Gauss", "flory_schulz": "FlorySchulz", "schulz_zimm": "SchulzZimm", "uniform": "Uniform", "log_normal": "LogNormal", "poisson": "Poisson"}[T["dist"]]
        attrs = {"Gauss": ("_mu", "_sigma"), "FlorySchulz": ("_a",), "SchulzZimm": ("_Mw", "_Mn"), "Uniform": ("_low", "_high"), "LogNormal": ("_M", "_D"), "Poisson": ("_N",)}[fam]
        if type(st.distribution).__name__ != fam or [getattr(st.distribution, a) for a in attrs] != ps:
            bad.append("distribution")
        ws = [float(x) for x in re.findall(r"\|([0-9.e+-]+)\|\]", rp["text"])]
        if [t.bond_descriptors[-1].weight for t in st.repeat_tokens] != ws[: len(st.repeat_tokens)]:
            bad.append("weights")
        for tok_, text_, front in ((els[0], T["prefix"], False), (els[-1], T["suffix"], True)):
            if text_ and type(tok_).__name__ == "SmilesToken" and tok_.bond_descriptors:
                rr = token_reference("[1*]" + text_ if front else text_ + "[1*]")
                bd_ = tok_.bond_descriptors[0] if front else tok_.bond_descriptors[-1]
                if bd_.atom_bonding_to != rr["descriptors"][0][0]:
                    bad.append(f"added descriptor of {text_!r} on atom {bd_.atom_bonding_to}, the text continues from atom {rr['descriptors'][0][0]}")
        return bool(bad), f"{rp['text']}: {bad}"
    return False, "unknown"
