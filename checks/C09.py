"""C09 — block sizes follow the declared distribution (claimed in reduced form: the plumbing)."""
from __future__ import annotations

import sys

from symx import core, gen
from symx.core import And, Or, Not
from symx.rng import SymRng
from symx.symstr import SymStr, Num

from .C01 import text_of
from .common import collector, explore_case

PROPERTY = "C09"
FUNCTIONS = ["gbigsmiles.distribution.get_distribution", "gbigsmiles.distribution.{Gauss,Uniform,Poisson,FlorySchulz,SchulzZimm,LogNormal}.__init__ / draw_mw / prob_mw",
             "gbigsmiles.distribution.Distribution.draw_mw / prob_mw", "gbigsmiles.stochastic.Stochastic.__init__ (which text reaches get_distribution)",
             "gbigsmiles.stochastic.Stochastic.generate (one draw per block)"]
EXPLANATION = (
    "The statement factors as (i) one target is drawn per block per generation from the declared family with the declared parameters in the documented "
    "order, (ii) the block stops after n units iff M_{n-1} <= target < M_n (C07), hence (iii) P(n) = F(M_n) - F(M_{n-1}). This check decides (i), the "
    "plumbing: distribution parameters are numeral atoms with symbolic values inside symbolic text (symbolic blanks), the real get_distribution and "
    "constructors run, scipy's frozen / custom distribution objects are replaced by recorders, and z3 proves that the recorder received gauss -> loc = first, "
    "scale = second; uniform -> loc = int(first), scale = int(second) - int(first); poisson -> mu; flory_schulz -> a on every rvs / cdf / pmf call; "
    "schulz_zimm(Mw, Mn) -> Mn = second and z (first - second) = second; log_normal(Mn, D) -> M = first, D = second; that the generator handed to rvs is the "
    "caller's; that each name constructs its own family; that a molecule with two blocks draws exactly once from each block's own distribution per "
    "generation. (iii) is checked with F an uninterpreted monotone function (telescoping)."
)
ASSUMPTIONS = ["scipy's samplers realise the law they are parameterised with (trusted library)", "the three hand-written mass / density functions are the named laws (C11, not applicable)",
               "numeral atoms for parameters; python floats as reals"]
OUTSIDE = ["ensemble frequencies (goodness of fit)", "the law actually sampled by scipy for given parameters", "meaning of the hand-written pmf / pdf formulas"]
REQUIRED_LABELS = ["parameters reach the sampler in documented order", "caller's generator is used for the draw", "name constructs its own family", "one draw per block from its own distribution"]

FAMS = {"gauss": 2, "uniform": 2, "poisson": 1, "flory_schulz": 1, "schulz_zimm": 2, "log_normal": 2}
CLS = {"gauss": "Gauss", "uniform": "Uniform", "poisson": "Poisson", "flory_schulz": "FlorySchulz", "schulz_zimm": "SchulzZimm", "log_normal": "LogNormal"}


def bounds(tier):
    return {"families": list(FAMS), "parameters": "all reals in [1e-3, 1e6] (integers for uniform)", "blanks": "0-1 at each separator"}


def cases(tier):
    out = [{"name": f"plumbing/{f}", "kind": "plumb", "fam": f} for f in FAMS]
    out.append({"name": "two-blocks-draws", "kind": "draws"})
    out.append({"name": "telescoping", "kind": "tele"})
    return out


class Rec:
    def __init__(self, kind, **kw):
        self.kind = kind
        self.kw = kw
        self.calls = []

    def __call__(self, *a, **kw):  # used as class: flory_schulz_gen(name=...)
        r = Rec(self.kind, **kw)
        r.parent = self
        INSTANCES.append(r)
        return r

    def __deepcopy__(self, memo):
        return self

    def rvs(self, *a, **kw):
        self.calls.append(("rvs", a, kw))
        return core.ctx().fresh_real("draw")

    def cdf(self, x, *a, **kw):
        self.calls.append(("cdf", (x,) + a, kw))
        return core.ctx().fresh_real("cdf", 0, 1)

    def pdf(self, x, *a, **kw):
        self.calls.append(("pdf", (x,) + a, kw))
        return core.ctx().fresh_real("pdf", 0)

    def pmf(self, x, *a, **kw):
        self.calls.append(("pmf", (x,) + a, kw))
        return core.ctx().fresh_real("pmf", 0, 1)


INSTANCES = []


class StatsProxy:
    def __init__(self, real):
        self._real = real

    def norm(self, *a, **kw):
        r = Rec("norm", **kw)
        r.args = a
        INSTANCES.append(r)
        return r

    def uniform(self, *a, **kw):
        r = Rec("uniform", **kw)
        r.args = a
        INSTANCES.append(r)
        return r

    def poisson(self, *a, **kw):
        r = Rec("poisson", **kw)
        r.args = a
        INSTANCES.append(r)
        return r

    def __getattr__(self, n):
        return getattr(self._real, n)


def install(dmod):
    if not isinstance(dmod.stats, StatsProxy):
        dmod.stats = StatsProxy(dmod.stats)
        dmod.FlorySchulz.flory_schulz_gen = Rec("flory_schulz_gen")
        dmod.SchulzZimm.schulz_zimm_gen = Rec("schulz_zimm_gen")
        dmod.LogNormal.log_normal_gen = Rec("log_normal_gen")
    # draw_mw may have been stubbed by the gen-driver in this process: restore the repository's own methods
    for cls in (dmod.Distribution, dmod.FlorySchulz, dmod.SchulzZimm, dmod.LogNormal, dmod.Gauss, dmod.Uniform, dmod.Poisson):
        if hasattr(cls, "_sx_orig_draw") and "draw_mw" in cls.__dict__:
            cls.draw_mw = cls._sx_orig_draw


def run_case(case, g, tier, res):
    on_path = collector(res, PROPERTY)
    dmod = sys.modules["gbigsmiles.distribution"]
    mp = sys.modules["gbigsmiles.mol_prob"]
    kind = case["kind"]
    if kind == "plumb":
        fam = case["fam"]

        def h(c):
            install(dmod)
            del INSTANCES[:]
            blank = lambda n: " " * c.fresh_int(n, 0, 1).__index__()
            uniform_float = fam == "uniform" and bool(c.fresh_bool("uniform_bounds_written_as_floats"))
            if uniform_float:
                # non-integer bounds: the code truncates them (reported as is); what is asserted here is only that the canonical text
                # denotes the distribution the object samples from
                ps = [c.fresh_real("p0", 1, 1e6), c.fresh_real("p1", 1, 1e6)]
                c.add((ps[0] + 1 < ps[1]).e)
            elif fam == "uniform":
                ps = [c.fresh_int("p0", 1, 10**6), c.fresh_int("p1", 1, 10**6)]
                c.add((ps[0] < ps[1]).e)
            else:
                ps = [c.fresh_real(f"p{i}", 1e-3, 1e6) for i in range(FAMS[fam])]
            if fam == "schulz_zimm":
                c.add((ps[0] > ps[1]).e)
            # every parameter in any spelling of the number (as Python prints it, positional decimal, exponent notation)
            style = (None, "plain", "sci", "sci-short", "sci-upper")[c.fresh_int("spelling", 0, 4).__index__()] if fam != "uniform" else None
            parts = ["|", blank("b0"), fam, "("]
            for i, p in enumerate(ps):
                if i:
                    parts += [",", blank(f"b{i}")]
                parts.append(Num(p, "int") if (fam == "uniform" and not uniform_float) else Num(p, "float", style))
            parts += [")", "|"]
            text = SymStr.of(*[p for p in parts if p != ""])
            via = c.fresh_int("via", 0, 1).__index__()

            def detail(what):
                def build(mv, c):
                    t = text_of(c, mv, text)
                    return (f"C09:{fam}:{what}", f"{fam}: {what} for {t!r}", {"kind": "plumb", "fam": fam, "text": t, "what": what})
                return build

            if via == 0:
                d = dmod.get_distribution(text)
            else:
                st = g.Stochastic(SymStr.of("{[][<]CC[>]; [<]O, [>]N[]}", text), 0)
                d = st.distribution
            c.prove(type(d).__name__ == CLS[fam], "name constructs its own family", detail("another family is constructed"))
            rng = SymRng()
            t = d.draw_mw(rng)
            obj = d._distribution
            c.prove(isinstance(obj, Rec), "sampler object is the recorder", detail("unexpected sampler object"))
            rv = [x for x in obj.calls if x[0] == "rvs"]
            c.prove(len(rv) == 1 and rv[0][2].get("random_state") is rng, "caller's generator is used for the draw", detail("the draw does not use the caller's generator exactly once"))
            kw = dict(rv[0][2]) if rv else {}
            kw.pop("random_state", None)
            lab = "parameters reach the sampler in documented order"
            wrong = detail("parameters reach the sampler in another order / meaning")
            if fam == "gauss":
                c.prove(And(obj.kw.get("loc") == ps[0], obj.kw.get("scale") == ps[1]) if set(obj.kw) == {"loc", "scale"} else False, lab, wrong)
            elif fam == "uniform" and not uniform_float:
                c.prove(And(obj.kw.get("loc") == ps[0], obj.kw.get("scale") == ps[1] - ps[0]) if set(obj.kw) == {"loc", "scale"} else False, lab, wrong)
            elif fam == "poisson":
                c.prove(obj.kw.get("mu") == ps[0] if set(obj.kw) == {"mu"} else False, lab, wrong)
            elif fam == "flory_schulz":
                c.prove(kw.get("a") == ps[0] if set(kw) == {"a"} else False, lab, wrong)
            elif fam == "schulz_zimm":
                c.prove(And(kw.get("Mn") == ps[1], kw.get("z") * (ps[0] - ps[1]) == ps[1]) if set(kw) == {"z", "Mn"} else False, lab, wrong)
            elif fam == "log_normal":
                c.prove(And(kw.get("M") == ps[0], kw.get("D") == ps[1]) if set(kw) == {"M", "D"} else False, lab, wrong)
            # the canonical text denotes the distribution the object samples from: the object parsed from the print hands the
            # same parameters to its sampler
            try:
                d2 = dmod.get_distribution(d.generate_string(True).strip("|"))
                d2.draw_mw(rng)
                obj2 = d2._distribution
                rv2 = [x for x in obj2.calls if x[0] == "rvs"]
                kw2 = dict(rv2[0][2]) if rv2 else {}
                kw2.pop("random_state", None)
                same_obj = set(obj.kw) == set(obj2.kw) and set(kw) == set(kw2)
                same_obj = And(same_obj, *[obj.kw[k] == obj2.kw[k] for k in obj.kw], *[kw[k] == kw2[k] for k in kw]) if same_obj else False
            except Exception as e:
                core.reraise_if_harness(e)
                same_obj = False
            c.prove(same_obj, "the canonical text denotes the distribution the object samples from", detail("the object parsed from the canonical text samples with other parameters"))
            # interval probability uses the same parameters
            ra = mp.RememberAdd(0.0)
            ra += 10.0
            ra += 5.0
            obj.calls.clear()
            pr = d.prob_mw(ra)
            cd = [x for x in obj.calls if x[0] == "cdf"]
            okc = len(cd) == 2 and cd[0][1][0] == 15.0 and cd[1][1][0] == 10.0
            c.prove(okc, "interval probability is cdf(value) - cdf(previous)", detail("interval probability does not use (value, previous)"))
            if okc and fam in ("flory_schulz", "schulz_zimm", "log_normal"):
                same = And(*[cd[0][2][k] == cd[1][2][k] for k in cd[0][2]]) if set(cd[0][2]) == set(cd[1][2]) == set(kw) else False
                same = And(same, *[cd[0][2][k] == kw[k] for k in kw]) if same is not False else False
                c.prove(same, lab, wrong)
            return fam

        explore_case(res, h, tier, on_path=on_path)
    elif kind == "draws":
        def h(c):
            install(dmod)
            del INSTANCES[:]
            from .C18 import FixedRng
            # real generate with two blocks; draws are recorded per distribution object
            text = "N{[<][<]CC[>][>]}|gauss(60,5)|{[<][<]CO[>][>]}|flory_schulz(0.1)|F"
            mol = g.Molecule(text)
            draws = []
            values = []

            def detail(what):
                def build(mv, c):
                    vals = [float(c.eval_in(mv, v)) for v in values]
                    return (f"C09:draws:{what}", f"{what} for {text} (drawn values {vals})", {"kind": "draws", "text": text, "what": what, "values": vals})
                return build

            for el in mol._elements:
                if isinstance(el, g.Stochastic):
                    obj = el.distribution._distribution
                    orig = obj.rvs

                    def rvs(*a, _el=el, _o=obj, **kw):
                        draws.append((_el, kw.get("random_state")))
                        v = core.ctx().fresh_real("t", None, 20)
                        values.append(v)
                        return v
                    obj.rvs = rvs
            rng = SymRng()
            gen.PROPHECY[0] = False
            try:
                mol.generate(rng=rng)
            finally:
                gen.PROPHECY[0] = True
            sts = [e for e in mol._elements if isinstance(e, g.Stochastic)]
            c.prove([d[0] for d in draws] == sts and all(d[1] is rng for d in draws), "one draw per block from its own distribution",
                    detail("the number / order / generator of draws differs from one per block"))
            return len(draws)

        explore_case(res, h, tier, on_path=on_path)
    else:
        def h(c):
            # P(n) = F(M_n) - F(M_{n-1}) telescopes to F(M_N) - F(M_0) for any monotone F
            N = c.fresh_int("N", 1, 6).__index__()
            m = c.fresh_real("m", 1, 1e3)
            F = [c.fresh_real(f"F{k}", 0, 1) for k in range(N + 1)]
            for k in range(N):
                c.add((F[k] <= F[k + 1]).e)
            tot = sum((F[k + 1] - F[k] for k in range(N)), 0.0)
            c.prove(And(tot == F[N] - F[0], tot <= 1, *[F[k + 1] - F[k] >= 0 for k in range(N)]), "block-size probabilities telescope")
            return N

        explore_case(res, h, tier, on_path=on_path)


def replay(rp, gb):
    """on the plain package: record what reaches scipy through monkey-patched rvs"""
    import numpy as np
    import gbigsmiles.distribution as dmod

    if rp["kind"] == "plumb":
        fam, t = rp["fam"], rp["text"]
        d = dmod.get_distribution(t)
        import re

        ps = [float(x) for x in re.search(r"\(([^)]*)\)", t).group(1).split(",")]
        bad = []
        if type(d).__name__ != CLS[fam]:
            bad.append("family")
        obj = d._distribution
        seen = {}
        orig = obj.rvs

        def rvs(*a, **kw):
            seen.update(kw)
            return 1.0

        obj.rvs = rvs
        rng = np.random.default_rng(1)
        d.draw_mw(rng)
        if seen.get("random_state") is not rng:
            bad.append("generator")
        if fam == "gauss" and (obj.kwds.get("loc"), obj.kwds.get("scale")) != (ps[0], ps[1]):
            bad.append("params")
        if fam == "uniform" and (obj.kwds.get("loc"), obj.kwds.get("scale")) != (int(ps[0]), int(ps[1]) - int(ps[0])):
            bad.append("params")
        if fam == "poisson" and obj.kwds.get("mu") != ps[0]:
            bad.append("params")
        if fam == "flory_schulz" and seen.get("a") != ps[0]:
            bad.append("params")
        if fam == "schulz_zimm" and not (seen.get("Mn") == ps[1] and abs(seen.get("z") * (ps[0] - ps[1]) - ps[1]) < 1e-9 * ps[1]):
            bad.append("params")
        if fam == "log_normal" and (seen.get("M"), seen.get("D")) != (ps[0], ps[1]):
            bad.append("params")
        # the object parsed from the canonical text samples with the same parameters
        try:
            d2 = dmod.get_distribution(str(d).strip("|"))
            obj2 = d2._distribution
            seen2 = {}
            obj2.rvs = lambda *a, **kw: (seen2.update(kw), 1.0)[1]
            d2.draw_mw(rng)
            k1 = {k: v for k, v in seen.items() if k != "random_state"}
            k2 = {k: v for k, v in seen2.items() if k != "random_state"}
            if dict(getattr(obj, "kwds", {})) != dict(getattr(obj2, "kwds", {})) or k1 != k2:
                bad.append(f"re-parse: {dict(getattr(obj, 'kwds', {}))} {k1} vs {dict(getattr(obj2, 'kwds', {}))} {k2}")
        except Exception as e:
            bad.append(f"re-parse raised {type(e).__name__}")
        if "canonical text" in rp.get("what", "") or "parsed from the canonical" in rp.get("what", ""):
            return any(b.startswith("re-parse") for b in bad), f"{t}: {bad}"
        return bool(bad), f"{t}: {bad}"
    if rp["kind"] == "draws":
        mol = gb.Molecule(rp["text"])
        draws = []
        vals = list(rp.get("values", []))
        for el in mol._elements:
            if isinstance(el, gb.Stochastic):
                obj = el.distribution._distribution

                def rvs(*a, _el=el, **kw):
                    draws.append((_el, kw.get("random_state")))
                    return vals.pop(0) if vals else 10.0
                obj.rvs = rvs
        rng = np.random.default_rng(3)
        mol.generate(rng=rng)
        sts = [e for e in mol._elements if isinstance(e, gb.Stochastic)]
        bad = [d[0] for d in draws] != sts or any(d[1] is not rng for d in draws)
        return bad, f"draws: {len(draws)} for {len(sts)} blocks"
    return False, "unknown"
