"""C13 — ensemble generation yields complete member molecules up to the system mass."""
from __future__ import annotations

import sys

from symx import core
from symx.core import And, Or, Not
from symx.rng import SymRng

from .common import collector, explore_case

PROPERTY = "C13"
FUNCTIONS = ["gbigsmiles.system.System.generator", "gbigsmiles.system.System.generate", "gbigsmiles.system.System.generable",
             "gbigsmiles.system.System.system_mass"]
EXPLANATION = (
    "System.generator / System.generate run with the system mass, the components' percentages, the mass of every molecule handed back and "
    "its fully_generated flag as solver variables (Molecule.generate of each component is replaced by a stub returning a fresh mass in "
    "[m_lo, 1e4] and a fresh flag), and every component pick explored. On every path z3 proves: every yielded object is the return value of "
    "generate() of the picked declared component and was fully generated (a stub answer 'not fully generated' must end in an exception before "
    "the yield); iteration stops exactly at the first molecule that brings the accumulated mass to the system mass or beyond "
    "(sum_{j<k} m_j < S <= sum_{j<=k} m_j); a non-generable system raises on the first next(); System.generate checks the component's "
    "generability before generating and returns a fully generated instance of a declared component."
)
ASSUMPTIONS = ["Molecule.generate of the components is a stub (fresh mass, fresh completeness flag); the real generate is covered by C04-C08",
               "python floats as reals", "numpy.random.Generator.choice contract (probability-zero elements are never returned)",
               "System.generator can only use the module-level generator (property without arguments): its default is re-bound to the symbolic generator"]
OUTSIDE = ["more than 4 yields", "membership of a SMILES in a component's ensemble by chemistry (established by provenance instead)"]
REQUIRED_LABELS = ["stop exactly at the system mass", "only fully generated molecules are yielded", "non-generable system refuses", "single generation returns a complete member"]


def bounds(tier):
    return {"components": 2 if tier == "quick" else 3, "yields": "<= 3 (quick) / 4 (thorough): S <= K * m_lo", "masses": "[m_lo, 1e4], m_lo = 10"}


def cases(tier):
    out = []
    for k in ((1, 2) if tier == "quick" else (1, 2, 3)):
        out.append({"name": f"generator/k{k}", "kind": "generator", "k": k, "K": 3 if tier == "quick" else 4})
        out.append({"name": f"generate/k{k}", "kind": "single", "k": k})
    # the same system object iterated again after an earlier, abandoned or completed, use of it
    for pre in ("partial", "complete", "single-generate", "interleaved-generate", "peek-then-continue"):
        out.append({"name": f"generator-after-{pre}/k2", "kind": "generator", "k": 2, "K": 2 if tier == "quick" else 3, "pre": pre})
    out.append({"name": "non-generable", "kind": "nongen"})
    out.append({"name": "real-components", "kind": "real"})
    out.append({"name": "real-components-with-hydrogen", "kind": "realh"})
    out.append({"name": "real-polymer-component", "kind": "realpoly"})
    return out


class FakeMolGen:
    def __init__(self, comp, serial, weight, full):
        self.comp = comp
        self.serial = serial
        self.weight = weight
        self.fully_generated = full


TEXT = {1: "C.|100|", 2: "C.|50%|CC.|100|", 3: "C.|25%|CC.|25%|O.|100|"}


def _prepare(c, g, k):
    system = g.System(TEXT[k])
    S = c.fresh_real("S", 1, 1e6)
    fr = [c.fresh_real(f"f{i}", 0, 100, lo_strict=True) for i in range(k - 1)]
    last = 100 - sum(fr, 0.0)
    c.assume(last > 0)
    fr.append(last if k > 1 else 100.0)
    for mol, f in zip(system._molecules, fr):
        mol.mixture._relative_mass = f
        mol.mixture._system_mass = S
        mol.mixture._absolute_mass = f / 100.0 * S
    log = {"generated": [], "order": []}

    def make_stub(i, mol):
        def gen(prefix=None, rng=None, **_more):
            if len(log["generated"]) >= 7:
                # unwinding bound: S <= K * 10 (K <= 4) and every molecule weighs at least 10, and the histories generate at most
                # 3 molecules before: no run needs more than 7 molecules
                raise core.emulated(RuntimeError("unwinding bound: more than 7 molecules generated"))
            m = c.fresh_real(f"m{len(log['generated'])}", 10, 1e4)
            full = c.fresh_bool(f"full{len(log['generated'])}")
            fm = FakeMolGen(i, len(log["generated"]), m, full)
            log["generated"].append(fm)
            log["order"].append(("generate", i))
            return fm
        return gen

    for i, mol in enumerate(system._molecules):
        mol.generate = make_stub(i, mol)
    return system, S, fr, log


POLY_TEXT = "[H]{[>][<]CC[>][<]}|gauss(60, 1)|[H].|100|"
# target 60: two units (48.04) do not exceed it, the third (72.07) does


def _iteration(system, pre):
    """the judged iteration over the ensemble; 'peek-then-continue': the first molecule is taken with next(), the rest with a for
    loop over the SAME object (for an iterator, iter(it) is it: nothing may start over)"""
    src = system.generator
    if pre != "peek-then-continue":
        return src
    it = src if hasattr(src, "__next__") else iter(src)
    try:
        first = next(it)
    except StopIteration:
        return iter(())

    def rest():
        yield first
        for m in it:
            yield m

    return rest()


def _bounded_generate(system, limit=8):
    """the components' real generate, counted: no bounded iteration needs more than `limit` molecules (unwinding bound)"""
    count = [0]
    for mol in system._molecules:
        orig = mol.generate

        def gen(prefix=None, rng=None, _orig=orig, **_more):
            count[0] += 1
            if count[0] > limit:
                raise core.emulated(RuntimeError(f"unwinding bound: more than {limit} molecules generated"))
            return _orig(prefix=prefix, rng=rng, **_more) if rng is not None else _orig(prefix=prefix, **_more)

        mol.generate = gen
    return count


def run_case(case, g, tier, res):
    on_path = collector(res, PROPERTY)
    sysmod = sys.modules["gbigsmiles.system"]
    System = sysmod.System
    kind = case["kind"]

    def detail(label, info):
        def build(mv, c):
            vals = {k: (float(c.eval_in(mv, v)) if core.is_sym(v) else v) for k, v in info().items()}
            return (f"C13:{label}", f"{label}: {vals}", {"kind": kind, "label": label, "values": vals, "k": case.get("k")})
        return build

    if kind == "generator":
        k, K = case["k"], case["K"]

        def h(c):
            system, S, fr, log = _prepare(c, g, k)
            c.assume(S <= K * 10)
            rng = SymRng()
            System.generator.fget.__defaults__ = (rng,)
            pre = case.get("pre")
            if pre:
                # history on the same System object before the iteration that is judged
                try:
                    if pre in ("interleaved-generate", "peek-then-continue"):
                        pass
                    elif pre == "partial":
                        it0 = iter(system.generator)
                        try:
                            next(it0)  # one molecule is taken, then the iteration is abandoned (the iterator stays alive)
                        except StopIteration:
                            raise core.Infeasible()
                        c.data["keepalive"] = it0
                    elif pre == "complete":
                        for _m in system.generator:
                            pass
                    else:
                        system.generate(rng=rng)
                except RuntimeError:
                    raise core.Infeasible()  # histories that end in a refusal are covered by the plain cases
            n0, r0 = len(log["generated"]), len(rng.calls)
            yielded = []
            exc = None
            info = lambda: {"S": S, "pre": pre or "", "n0": n0, "r0": r0, **{f"m{j}": fm.weight for j, fm in enumerate(log["generated"])},
                            **{f"full{j}": (fm.fully_generated if isinstance(fm.fully_generated, bool) else core.Ite(fm.fully_generated, 1, 0)) for j, fm in enumerate(log["generated"])},
                            "picks": str([r.index for r in rng.calls]), **{f"f{i}": f for i, f in enumerate(fr)}}
            inter = []  # molecules produced by single generations interleaved with the iteration (not part of it)
            try:
                for m in _iteration(system, pre):
                    yielded.append(m)
                    c.prove(len(yielded) <= K, "unwinding bound", detail("more molecules than S / m_lo", info))
                    if pre == "interleaved-generate" and len(yielded) == 1:
                        # a single generation on the same System object between two steps of the running iteration
                        try:
                            inter.append(system.generate(rng=rng))
                        except RuntimeError:
                            raise core.Infeasible()
            except RuntimeError as e:
                exc = e
            # provenance and completeness
            gen_all = log["generated"]
            log_gen = [m_ for m_ in gen_all[n0:] if not any(m_ is x for x in inter)]
            skip = [k_ for k_, m_ in enumerate(gen_all[n0:]) if any(m_ is x for x in inter)]
            calls = [cl for k_, cl in enumerate(rng.calls[r0:]) if k_ not in skip]
            for j, m in enumerate(yielded):
                ok = isinstance(m, FakeMolGen) and j < len(log_gen) and m is log_gen[j] and j < len(calls) and m.comp == calls[j].items[calls[j].index]
                c.prove(ok, "yielded molecule is the picked component's generate() result", detail("a yielded object is not the picked declared component's product", info))
                c.prove(m.fully_generated, "only fully generated molecules are yielded", detail("a partially generated molecule is yielded", info))
            n = len(yielded)
            gen = log_gen
            if exc is None:
                c.prove(len(gen) == n, "every generated molecule is yielded", detail("a generated molecule is dropped", info))
                tot_before = sum((m.weight for m in yielded[:-1]), 0.0)
                tot = sum((m.weight for m in yielded), 0.0)
                c.prove(n >= 1, "at least one molecule", detail("nothing is yielded for a positive system mass", info))
                c.prove(And(tot_before < S, tot >= S), "stop exactly at the system mass", detail("iteration does not stop at the first molecule reaching the system mass", info))
            else:
                # an exception is only acceptable because the last generated molecule was incomplete
                c.prove(len(gen) == n + 1 and Not(gen[-1].fully_generated), "exception only for an incomplete molecule", detail("generator raised without an incomplete molecule", info))
            return n, type(exc).__name__

        explore_case(res, h, tier, on_path=on_path, budget_s=300)
    elif kind == "single":
        k = case["k"]

        def h(c):
            system, S, fr, log = _prepare(c, g, k)
            rng = SymRng()
            gflags = []
            for i, mol in enumerate(system._molecules):
                flag = c.fresh_bool(f"generable{i}")
                gflags.append(flag)
                stub = mol.generate

                class _M(type(mol)):
                    pass

                def mkprop(flag, i):
                    def gp(self):
                        log["order"].append(("generable?", i))
                        return bool(flag)
                    return property(gp)

                _M.generable = mkprop(flag, i)
                mol.__class__ = _M
            info = lambda: {"picks": str([r.index for r in rng.calls]), "order": str(log["order"])}
            try:
                out = system.generate(rng=rng)
                exc = None
            except RuntimeError as e:
                out, exc = None, e
            i = rng.calls[0].items[rng.calls[0].index]
            asked = ("generable?", i) in log["order"]
            if out is not None:
                c.prove(asked and log["order"].index(("generable?", i)) < log["order"].index(("generate", i)),
                        "generability checked before generating", detail("generate() of a component runs before its generability is checked", info))
                c.prove(And(out is log["generated"][-1], out.comp == i, out.fully_generated), "single generation returns a complete member",
                        detail("single generation returns an incomplete or foreign molecule", info))
            else:
                why = [Not(gflags[i])]
                if log["generated"]:
                    why.append(Not(log["generated"][-1].fully_generated))
                c.prove(Or(*why), "single generation refuses only the non-generable / incomplete", detail("single generation raised for a generable component", info))
                c.prove(Not(And(Not(gflags[i]), len(log["generated"]) > 0)), "generability checked before generating", detail("a non-generable component was generated", info))
            return out is not None

        explore_case(res, h, tier, on_path=on_path, budget_s=300)
    elif kind == "realh":
        # a component without heavy atoms ([H][H], heavy-atom mass 0) next to methane: the accumulated mass is the HEAVY-ATOM mass
        # of the yielded molecules, recomputed here with RDKit from their SMILES (at most two hydrogen molecules per iteration)
        from rdkit import Chem
        from rdkit.Chem import Descriptors as _D

        def h(c):
            system = g.System("[H][H].|50%|C.|100|")
            S = c.fresh_real("S", 1, 30)
            f0 = c.fresh_real("f0", 0, 100, lo_strict=True)
            c.assume(f0 < 100)
            for mol, f in zip(system._molecules, (f0, 100 - f0)):
                mol.mixture._relative_mass = f
                mol.mixture._system_mass = S
                mol.mixture._absolute_mass = f / 100.0 * S
            rng = SymRng()
            System.generator.fget.__defaults__ = (rng,)
            _bounded_generate(system)
            info = lambda: {"S": S, "f0": f0, "picks": str([r.index for r in rng.calls])}
            out = []
            nh = 0
            for m in system.generator:
                out.append(m)
                if m.smiles in ("[H][H]", "[HH]"):
                    nh += 1
                    if nh > 2:
                        raise core.Infeasible()  # bound of the exploration: at most two hydrogen molecules
                c.prove(len(out) <= 6, "unwinding bound", detail("more molecules than the bound", info))
            tot = 0.0
            for j, m in enumerate(out):
                hm = _D.HeavyAtomMolWt(Chem.MolFromSmiles(m.smiles))
                c.prove(abs(m.weight - hm) < 1e-6, "the mass booked for a molecule is its heavy-atom mass", detail("a yielded molecule is booked with another mass than its heavy-atom mass", info))
                if j == len(out) - 1:
                    c.prove(And(tot < S, tot + hm >= S), "stop exactly at the system mass", detail("iteration does not stop at the first molecule reaching the system mass (heavy-atom masses recomputed)", info))
                tot += hm
            return len(out)

        explore_case(res, h, tier, on_path=on_path, budget_s=300)
    elif kind == "realpoly":
        # a polymer component generated by its real code inside the ensemble: every yielded molecule is what the component
        # generates on its own for the same drawn target (the ensemble's state - mass still missing - has no say in it)
        def h(c):
            system = g.System(POLY_TEXT)
            S = c.fresh_real("S", 1, 200)
            mol = system._molecules[0]
            mol.mixture._relative_mass = 100.0
            mol.mixture._system_mass = S
            mol.mixture._absolute_mass = S
            from symx import gen
            gen.install_observers(g, gen.Observer())
            gen.DRAW_FN[0] = gen.scripted_draw([60.0] * 12)
            alone = mol.generate(rng=SymRng()).smiles  # the component on its own, same drawn target
            rng = SymRng()
            System.generator.fget.__defaults__ = (rng,)
            _bounded_generate(system)
            info = lambda: {"S": S}
            out = []
            for m in system.generator:
                out.append(m)
                c.prove(len(out) <= 4, "unwinding bound", detail("more molecules than S / 72", info))
            tot = 0.0
            for j, m in enumerate(out):
                c.prove(m.smiles == alone and m.fully_generated, "yielded molecule is the picked component's generate() result",
                        detail("a yielded molecule is not what the component generates on its own for the same drawn target", info))
                if j == len(out) - 1:
                    c.prove(And(tot < S, tot + m.weight >= S), "stop exactly at the system mass", detail("iteration does not stop at the first molecule reaching the system mass", info))
                tot += m.weight
            return len(out)

        explore_case(res, h, tier, on_path=on_path, budget_s=300)
    elif kind == "real":
        # the same loop with the components' real generate (tiny molecules): ties the stub to reality
        def h(c):
            system = g.System("C.|50%|CC.|100|")
            S = c.fresh_real("S", 1, 40)
            f0 = c.fresh_real("f0", 0, 100, lo_strict=True)
            c.assume(f0 < 100)
            for mol, f in zip(system._molecules, (f0, 100 - f0)):
                mol.mixture._relative_mass = f
                mol.mixture._system_mass = S
                mol.mixture._absolute_mass = f / 100.0 * S
            rng = SymRng()
            System.generator.fget.__defaults__ = (rng,)
            _bounded_generate(system)
            info = lambda: {"S": S, "f0": f0, "picks": str([r.index for r in rng.calls])}
            out = []
            for m in system.generator:
                out.append(m)
                c.prove(len(out) <= 4, "unwinding bound", detail("more molecules than S / 12", info))
            masses = {0: 12.011, 1: 24.022}
            smis = {0: "C", 1: "CC"}
            tot = 0.0
            for j, m in enumerate(out):
                i = rng.calls[j].items[rng.calls[j].index]
                c.prove(m.smiles == smis[i] and m.fully_generated and abs(m.weight - masses[i]) < 1e-6,
                        "yielded molecule is the picked component's generate() result", detail("a yielded molecule is not an instance of the picked component", info))
                if j == len(out) - 1:
                    c.prove(And(tot < S, tot + m.weight >= S), "stop exactly at the system mass", detail("iteration does not stop at the first molecule reaching the system mass", info))
                tot += m.weight
            return len(out)

        explore_case(res, h, tier, on_path=on_path, budget_s=300)
    else:
        def h(c):
            which = c.fresh_int("which", 0, 2).__index__()
            text = ["C.CC", "C.|10%|CC", "C.|50|{[][<|-1|]CC[>]; [<]O, [>]N[]}|gauss(50,5)|.|50|"][which]
            system = g.System(text)
            rng = SymRng()
            System.generator.fget.__defaults__ = (rng,)
            info = lambda: {"text": text}
            c.prove(system.generable is False, "non-generable system reports so", detail("an under-specified system reports generable", info))
            try:
                it = iter(system.generator)
                next(it)
                raised = False
            except Exception:  # any exception is a refusal
                raised = True
            c.prove(raised, "non-generable system refuses", detail("a non-generable system yields a molecule", info))
            return text

        explore_case(res, h, tier, on_path=on_path, budget_s=300)


def replay(rp, gb):
    """Concrete re-run with scripted masses/flags/picks on the plain package."""
    import numpy as np
    from gbigsmiles.system import System

    from .gendrive import ScriptedRng, ReplayDone

    vals = rp["values"]
    kind = rp["kind"]
    if kind == "nongen":
        system = gb.System(vals["text"])
        try:
            next(iter(system.generator))
            raised = False
        except Exception:
            raised = True
        bad = system.generable is not False or not raised
        return bad, f"generable={system.generable} raised={raised}"
    if kind == "realh":
        from rdkit import Chem
        from rdkit.Chem import Descriptors as _D

        system = gb.System("[H][H].|50%|C.|100|")
        S, f0 = vals["S"], vals["f0"]
        for mol, f in zip(system._molecules, (f0, 100 - f0)):
            mol.mixture._relative_mass = f
            mol.mixture._system_mass = S
            mol.mixture._absolute_mass = f / 100.0 * S
        rng = ScriptedRng(eval(vals["picks"]))
        System.generator.fget.__defaults__ = (rng,)
        out = []
        try:
            for m in system.generator:
                out.append(m)
                if len(out) > 10:
                    break
        except ReplayDone:
            pass
        bad, tot = [], 0.0
        for j, m in enumerate(out):
            hm = _D.HeavyAtomMolWt(Chem.MolFromSmiles(m.smiles))
            if abs(m.weight - hm) > 1e-6:
                bad.append(f"{m.smiles} booked {m.weight}, heavy-atom mass {hm}")
            tot += hm
        return bool(bad), f"yielded {[m.smiles for m in out]} S={S}: {bad}"
    if kind == "realpoly":
        from symx import gen as _gen

        system = gb.System(POLY_TEXT)
        S = vals["S"]
        mol = system._molecules[0]
        mol.mixture._relative_mass, mol.mixture._system_mass, mol.mixture._absolute_mass = 100.0, S, S
        _gen.install_observers(gb, _gen.Observer())
        _gen.DRAW_FN[0] = _gen.scripted_draw([60.0] * 12)
        alone = mol.generate(rng=np.random.default_rng(3)).smiles
        System.generator.fget.__defaults__ = (np.random.default_rng(3),)
        out = []
        for m in system.generator:
            out.append(m)
            if len(out) > 10:
                break
        bad = []
        tot = 0.0
        for j, m in enumerate(out):
            if m.smiles != alone or not m.fully_generated:
                bad.append(f"molecule {j} is {m.smiles}; alone the component generates {alone} for the same drawn target")
            if j == len(out) - 1 and not (tot < S <= tot + m.weight):
                bad.append(f"stop rule: before={tot} after={tot + m.weight} S={S}")
            tot += m.weight
        if len(out) > 4:
            bad.append("too many molecules")
        return bool(bad), f"yielded {[m.smiles for m in out]} S={S}: {bad}"
    if kind == "real":
        import numpy as np

        system = gb.System("C.|50%|CC.|100|")
        S, f0 = vals["S"], vals["f0"]
        for mol, f in zip(system._molecules, (f0, 100 - f0)):
            mol.mixture._relative_mass = f
            mol.mixture._system_mass = S
            mol.mixture._absolute_mass = f / 100.0 * S
        picks = eval(vals["picks"])
        rng = ScriptedRng(picks)
        System.generator.fget.__defaults__ = (rng,)
        out = []
        try:
            for m in system.generator:
                out.append(m)
                if len(out) > 10:
                    break
        except ReplayDone:
            pass
        bad = []
        tot = 0.0
        for j, m in enumerate(out):
            want = ["C", "CC"][picks[j]] if j < len(picks) else None
            if m.smiles != want or not m.fully_generated:
                bad.append(f"molecule {j} is {m.smiles}, picked component {want}")
            if j == len(out) - 1 and not (tot < S <= tot + m.weight):
                bad.append(f"stop rule: before={tot} after={tot + m.weight} S={S}")
            tot += m.weight
        if len(out) > 4:
            bad.append("too many molecules")
        return bool(bad), f"yielded {[m.smiles for m in out]} S={S}: {bad}"
    k = rp["k"]
    system = gb.System(TEXT[k])
    picks = eval(vals["picks"])
    fr = [vals.get(f"f{i}") for i in range(k)]
    S = vals.get("S", 100.0)
    if all(f is not None for f in fr):
        for mol, f in zip(system._molecules, fr):
            mol.mixture._relative_mass = f
            mol.mixture._system_mass = S
            mol.mixture._absolute_mass = f / 100.0 * S
    gen = []

    def make(i):
        def g(prefix=None, rng=None):
            j = len(gen)
            fm = FakeMolGen(i, j, vals.get(f"m{j}", 10.0), bool(vals.get(f"full{j}", 1)))
            gen.append(fm)
            return fm
        return g

    for i, mol in enumerate(system._molecules):
        mol.generate = make(i)
    rng = ScriptedRng(picks)
    if kind == "generator":
        System.generator.fget.__defaults__ = (rng,)
        pre = vals.get("pre") or ""
        keep = None
        try:
            if pre == "partial":
                keep = iter(system.generator)
                next(keep)
            elif pre == "complete":
                for _m in system.generator:
                    pass
            elif pre and pre not in ("interleaved-generate", "peek-then-continue"):
                system.generate(rng=rng)
        except (ReplayDone, RuntimeError) as e:
            return False, f"history could not be replayed: {type(e).__name__}"
        n0, r0 = len(gen), rng.k
        picks = picks[r0:]
        gen_all = gen
        out, exc, inter = [], None, []
        try:
            for m in _iteration(system, pre):
                out.append(m)
                if len(out) > 50:
                    break
                if pre == "interleaved-generate" and len(out) == 1:
                    inter.append(system.generate(rng=rng))
        except ReplayDone:
            pass
        except RuntimeError as e:
            exc = e
        bad = []
        gen = [m_ for m_ in gen_all[n0:] if not any(m_ is x for x in inter)]
        if inter:
            pos = [k_ for k_, m_ in enumerate(gen_all[n0:]) if any(m_ is x for x in inter)]
            picks = [p_ for k_, p_ in enumerate(picks) if k_ not in pos]
        for j, m in enumerate(out):
            if not m.fully_generated:
                bad.append("incomplete molecule yielded")
            if j >= len(gen) or j >= len(picks) or m is not gen[j] or m.comp != picks[j]:
                bad.append("foreign molecule")
        if exc is None:
            tot = sum(m.weight for m in out)
            totb = sum(m.weight for m in out[:-1])
            if not (totb < S <= tot):
                bad.append(f"stop rule: before={totb} total={tot} S={S}")
            if len(gen) != len(out):
                bad.append("generated molecule dropped")
        else:
            if not (len(gen) == len(out) + 1 and not gen[-1].fully_generated):
                bad.append("raised without incomplete molecule")
        return bool(bad), f"yielded={len(out)} exc={exc} problems={bad}"
    return False, "single-generation counter-examples are re-derived symbolically only"
