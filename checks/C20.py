"""C20 — force-field typing: total, element-consistent, numbering- and history-free (decidable core)."""
from __future__ import annotations

import itertools
import os
import re
import sys

from symx import core
from symx.core import And, Or, Not

from .common import collector, explore_case

PROPERTY = "C20"
FUNCTIONS = ["gbigsmiles.forcefield_helper.get_assignment_class (module-level cache)", "gbigsmiles.forcefield_helper.SMARTS_ASSIGNMENTS.get_type_assignments / get_type / get_ffparam",
             "gbigsmiles.mol_gen.MolGen.get_forcefield_types (refusal of partially generated molecules)"]
EXPLANATION = (
    "(a) History: every sequence of up to 3 calls get_assignment_class(rule_file, parameter_file) with each argument in {None, file A, file B} is "
    "explored (the reader's constructor is replaced by a recorder, module globals re-initialised per path); the object returned by the k-th call must "
    "have been constructed from exactly (rule_file_k, parameter_file_k). (b) Selection: get_type_assignments runs with a symbolic match relation "
    "M[rule][atom] (4 rules of equal and different SMARTS length, 3 atoms; RDKit's matcher replaced by a stub answering from M) and a symbolic atom "
    "permutation: every atom with a matching rule gets exactly the parameter set of its longest matching rule (first in file order among equals); if "
    "an atom has none, FfAssignmentError carrying the partial assignment is raised; the assignment commutes with the permutation. (c) A molecule with "
    "open descriptors is refused. Concrete side check (not solver-decided): every type reachable through the bundled rule file has the atomic mass of "
    "the element its SMARTS starts with."
)
ASSUMPTIONS = ["RDKit's SMARTS matching is replaced by an arbitrary relation (its numbering-independence is a fact about RDKit)", "the bundled rule set's completeness for 'typable chemistry' is not decidable here"]
OUTSIDE = ["RDKit SMARTS semantics", "completeness of the bundled rule set", "more than 3 calls / 4 rules / 3 atoms"]
REQUIRED_LABELS = ["typing real molecules: element masses, numbering- and history-free", "assigner built from the requested files", "longest matching rule wins", "unmatched atom raises with the partial assignment", "partially generated molecule refused"]

RULES = ["[$([CH3D4])]", "[$([CH2D4])]", "[$([#1][CH4])]", "[$([#1][CD4;!$([C][CD2,O,N][#6])])]"]  # lengths 12, 12, 14, 37
TYPES = ["opls_135", "opls_136", "opls_140", "opls_140B"]


def bounds(tier):
    return {"calls": 2 if tier == "quick" else 3, "rules": 4, "atoms": 2 if tier == "quick" else 3}


def cases(tier):
    n = 2 if tier == "quick" else 3
    out = [{"name": f"history/{n}calls", "kind": "history", "n": n}, {"name": "selection", "kind": "selection"},
           {"name": "refusal", "kind": "refusal"}, {"name": "element-masses", "kind": "masses"},
           {"name": "real-typing-history", "kind": "realhist"}, {"name": "molgen-typing-sequences", "kind": "molgenhist"}, {"name": "file-sequences", "kind": "filehist"},
           {"name": "molgen-spelling-pairs", "kind": "spellings"}]
    return out


def run_case(case, g, tier, res):
    on_path = collector(res, PROPERTY)
    ff = sys.modules["gbigsmiles.forcefield_helper"]
    kind = case["kind"]
    if kind == "history":
        n = case["n"]
        names = [None, "A", "B"]

        def h(c):
            ff._global_nonbonded_itp_file = None
            ff._global_smarts_rule_file = None
            ff._global_assignment_class = None
            built = []

            class Rec:
                def __init__(self, smarts_filename, nb_filename):
                    self.args = (smarts_filename, nb_filename)
                    built.append(self)

            orig = ff.SMARTS_ASSIGNMENTS
            ff.SMARTS_ASSIGNMENTS = Rec
            hist = []
            try:
                for k in range(n):
                    s = names[c.fresh_int(f"s{k}", 0, 2).__index__()]
                    nb = names[c.fresh_int(f"n{k}", 0, 2).__index__()]
                    hist.append((s, nb))

                    def build(mv, c, hist=list(hist)):
                        return ("C20:cache-returns-assigner-of-other-files", f"get_assignment_class history {hist}: the last call does not get an assigner built from its own files",
                                {"kind": "history", "history": hist})

                    try:
                        obj = ff.get_assignment_class(s, nb)
                    except Exception as e:
                        core.reraise_if_harness(e)
                        c.prove(False, "assigner built from the requested files", build)
                        continue
                    c.prove(isinstance(obj, Rec) and obj.args == (s, nb), "assigner built from the requested files", build)
            finally:
                ff.SMARTS_ASSIGNMENTS = orig
            return hist

        explore_case(res, h, tier, on_path=on_path)
    elif kind == "selection":
        SA = ff.SMARTS_ASSIGNMENTS
        nr, na = len(RULES), (2 if tier == "quick" else 3)

        def h(c):
            sa = SA.__new__(SA)
            sa._rule_dict = {r: t for r, t in zip(RULES, TYPES)}
            sa._type_dict = {t: i for i, t in enumerate(TYPES)}
            sa._type_dict_rev = {i: t for i, t in enumerate(TYPES)}
            sa._type_param = {t: ff.FFParam(mass=1.0 + i, charge=0.0, sigma=1.0, epsilon=1.0, bond_type_name=t) for i, t in enumerate(TYPES)}
            M = [[c.fresh_bool(f"M{r}_{a}") for a in range(na)] for r in range(nr)]
            perms = list(itertools.permutations(range(na)))[1:3]
            perm = perms[c.fresh_int("perm", 0, len(perms) - 1).__index__()]

            class FakeRule:
                def __init__(self, idx):
                    self.idx = idx

            class FakeChem:
                @staticmethod
                def MolFromSmarts(rule):
                    return FakeRule(RULES.index(rule))

            class FakeMol:
                def __init__(self, relabel):
                    self.relabel = relabel

                def GetNumAtoms(self):
                    return na

                def GetSubstructMatches(self, rule):
                    out = []
                    for a in range(na):
                        if M[rule.idx][a]:
                            out.append((self.relabel[a],))
                    return tuple(sorted(out))

            real = ff.Chem
            ff.Chem = FakeChem

            def run(relabel):
                try:
                    return sa.get_type_assignments(FakeMol(relabel)), None
                except ff.FfAssignmentError as e:
                    return None, e

            def build(mv, c):
                rel = [[bool(mv.get(str(M[r][a].e), False)) for a in range(na)] for r in range(nr)]
                return ("C20:selection", f"type selection wrong for match relation {rel} (rules {RULES}) and atom permutation {perm}",
                        {"kind": "selection", "M": rel, "perm": list(perm), "na": na})

            try:
                res1, err1 = run(list(range(na)))
                res2, err2 = run(list(perm))
            finally:
                ff.Chem = real
            # reference: longest matching rule, first among equals in file order
            want = {}
            for a in range(na):
                best = None
                for r in range(nr):
                    if M[r][a]:  # decided on this path (the stub forked on it)
                        if best is None or len(RULES[r]) > len(RULES[best]):
                            best = r
                if best is not None:
                    want[a] = sa._type_param[TYPES[best]]
            if len(want) == na:
                c.prove(err1 is None and res1 == want, "longest matching rule wins", build)
                c.prove(err2 is None and res2 == {perm[a]: want[a] for a in range(na)}, "assignment commutes with the atom numbering", build)
            else:
                c.prove(err1 is not None and err1.incomplete_ff_dict == want, "unmatched atom raises with the partial assignment", build)
                c.prove(err2 is not None and err2.incomplete_ff_dict == {perm[a]: want[a] for a in want}, "assignment commutes with the atom numbering", build)
            return len(want)

        explore_case(res, h, tier, on_path=on_path)
    elif kind == "refusal":
        def h(c):
            k = c.fresh_int("open", 0, 4).__index__()
            text = ["CC", "CC[$]", "[$]CC[$]", "CC[$|0|]", "[<|0|]CC[>|0.0|]"][k]
            tok = g.SmilesToken(text, 0, 0)
            mg = sys.modules["gbigsmiles.mol_gen"].MolGen(tok)

            def build(mv, c):
                return ("C20:refusal", f"get_forcefield_types on a molecule with {k} open descriptors", {"kind": "refusal", "text": text})

            try:
                mg.get_forcefield_types()
                refused = False
            except RuntimeError:
                refused = True
            except Exception as e:
                core.reraise_if_harness(e)
                refused = None
            if k > 0:
                c.prove(refused is True, "partially generated molecule refused", build)
            else:
                c.prove(refused is False, "fully generated molecule typed", build)
            return refused

        explore_case(res, h, tier, on_path=on_path)
    elif kind == "realhist":
        def h(c):
            i = c.fresh_int("pair", 0, len(REAL_PAIRS) - 1).__index__()
            first = c.fresh_int("first", 0, 1).__index__()
            problems = real_typing_history(ff, REAL_PAIRS[i], first)

            def build(mv, c):
                return ("C20:real-typing-history", f"typing {REAL_PAIRS[i]} (starting with #{first}) on one assigner: {problems[:3]}",
                        {"kind": "realhist", "pair": list(REAL_PAIRS[i]), "first": first})

            c.prove(len(problems) == 0, "typing real molecules: element masses, numbering- and history-free", build)
            return len(problems)

        explore_case(res, h, tier, on_path=on_path)
    elif kind == "spellings":
        def h(c):
            i = c.fresh_int("pair", 0, len(SPELLING_PAIRS) - 1).__index__()
            problems = molgen_spelling_pair(g, ff, SPELLING_PAIRS[i])

            def build(mv, c):
                return (f"C20:molgen-spellings:{problems[0][0] if problems else ''}", f"typing two atom orders of one molecule through MolGen.forcefield_types: {[p_[1] for p_ in problems[:3]]}",
                        {"kind": "spellings", "pair": list(SPELLING_PAIRS[i])})

            c.prove(len(problems) == 0, "typing generated molecules: numbering-free, element masses (hetero-aromatic and fused rings)", build)
            return len(problems)

        explore_case(res, h, tier, on_path=on_path)
    elif kind == "filehist":
        def h(c):
            k = c.fresh_int("history", 0, len(FILE_HISTORIES) - 1).__index__()
            which = c.fresh_int("molecule", 0, len(TYPABLE) - 1).__index__()
            problems = file_sequence(g, ff, FILE_HISTORIES[k], TYPABLE[which])

            def build(mv, c):
                return (f"C20:file-sequence:{problems[0][0] if problems else ''}", f"typing {TYPABLE[which]} with copies of the bundled files after the calls {FILE_HISTORIES[k]}: {[p_[1] for p_ in problems[:3]]}",
                        {"kind": "filehist", "history": k, "molecule": TYPABLE[which]})

            c.prove(len(problems) == 0, "copies of the bundled files give the defaults' result, whatever files were used before", build)
            return len(problems)

        explore_case(res, h, tier, on_path=on_path)
    elif kind == "molgenhist":
        def h(c):
            first = c.fresh_int("first", 0, len(TYPABLE) - 1).__index__()
            between = c.fresh_int("between", 0, len(BETWEEN) - 1).__index__()
            problems = molgen_typing_sequence(g, ff, TYPABLE[first], BETWEEN[between])

            def build(mv, c):
                return (f"C20:molgen-typing:{problems[0][0] if problems else ''}", f"typing {TYPABLE[first]}, then {BETWEEN[between]}, then {TYPABLE[first]} again through MolGen.forcefield_types: {[p_[1] for p_ in problems[:3]]}",
                        {"kind": "molgenhist", "first": TYPABLE[first], "between": BETWEEN[between]})

            c.prove(len(problems) == 0, "typing generated molecules: total or dedicated error, element masses, history-free", build)
            return len(problems)

        explore_case(res, h, tier, on_path=on_path)
    else:
        def h(c):
            bad = element_mass_mismatches(ff)

            def build(mv, c):
                return ("C20:element-mass:" + ",".join(sorted({b[0] for b in bad})), f"types whose mass is not that of the element their rule matches: {bad[:5]}", {"kind": "masses"})

            c.prove(len(bad) == 0, "type masses are element masses (concrete side check)", build)
            return len(bad)

        explore_case(res, h, tier, on_path=on_path)


# earlier calls (rule file, parameter file) before the call under test; R = reduced rule file (alkane types only), F / P = copies
# of the bundled rule / parameter files, None = bundled default
FILE_HISTORIES = [[], [("R", "P")], [("R", None)], [(None, None)], [("R", "P"), (None, None)], [("F", None)], [(None, "P")], [("F", "P")], [("R", "P"), ("F", "P")]]


def _file_copies(ff):
    """copies of the bundled files and a reduced rule file in a scratch directory (returned: dict tag -> path)"""
    import os
    import tempfile
    from importlib.resources import files

    d = tempfile.mkdtemp(prefix="symx-c20-")
    rules = files("gbigsmiles").joinpath("data", "opls.par").read_text()
    params = files("gbigsmiles").joinpath("data", "ffnonbonded.itp").read_text()
    keep = ("opls_135", "opls_136", "opls_137", "opls_138", "opls_139", "opls_140")
    reduced = "\n".join(l for l in rules.splitlines() if l.strip().startswith("*") or any(f"| {k} " in l.replace("   ", " ").replace("  ", " ") for k in keep))
    out = {}
    for tag, text in (("F", rules), ("P", params), ("R", reduced)):
        out[tag] = os.path.join(d, {"F": "rules_copy.par", "P": "params_copy.itp", "R": "rules_alkanes.par"}[tag])
        with open(out[tag], "w") as fh:
            fh.write(text)
    out["dir"] = d
    return out


def file_sequence(g, ff, history, smi):
    """type `smi` with copies of the bundled files after a history of calls with other files; the result equals (by value)
    the result of a fresh process using the defaults"""
    import shutil

    problems = []
    paths = _file_copies(ff)
    try:
        def snapshot(params, mol):
            return [(a.GetIdx(), a.GetSymbol(), params[a.GetIdx()].bond_type_name, int(params[a.GetIdx()].bond_type_id), float(params[a.GetIdx()].mass), float(params[a.GetIdx()].charge),
                     float(params[a.GetIdx()].sigma), float(params[a.GetIdx()].epsilon)) for a in mol.GetAtoms() if a.GetIdx() in params]

        ff._global_nonbonded_itp_file = ff._global_smarts_rule_file = ff._global_assignment_class = None
        ref_p, ref_m = g.Molecule(smi).generate().get_forcefield_types(None, None)
        ref = snapshot(ref_p, ref_m)
        ff._global_nonbonded_itp_file = ff._global_smarts_rule_file = ff._global_assignment_class = None
        for (r, p_) in history:
            try:
                g.Molecule("CCCC" if r == "R" else "CC(=O)OCC").generate().get_forcefield_types(paths.get(r), paths.get(p_))
            except ff.FfAssignmentError:
                pass
            except Exception as e:
                problems.append(("history-call", f"the earlier call with files ({r}, {p_}) raised {type(e).__name__}"))
                return problems
        try:
            got_p, got_m = g.Molecule(smi).generate().get_forcefield_types(paths["F"], paths["P"])
        except Exception as e:
            problems.append(("copies-raise", f"typing with copies of the bundled files raised {type(e).__name__}: {e}"))
            return problems
        got = snapshot(got_p, got_m)
        if got != ref:
            problems.append(("copies-differ", f"copies of the bundled files give another result than the defaults: {[x for x, y in zip(got, ref) if x != y][:2]}"))
    finally:
        shutil.rmtree(paths["dir"], ignore_errors=True)
    return problems


# molecules (single-token, generated through the public API) the bundled rules type completely / cannot type completely
TYPABLE = ["CCO", "CCCCO", "CC(=O)OC", "Cc1ccccc1"]
BETWEEN = ["[2H]C([2H])([2H])O", "[13CH3]O", "C[N+](C)(C)C", "C[SiH3]", "OO", "O", "CCCC", "CB(C)C", "C[Se]C", "OB(O)c1ccccc1", "CC(=O)OC", "Cc1ccccc1"]


def molgen_typing_sequence(g, ff, first, between):
    """type `first`, then `between` (isotope-labelled or untypable), then `first` again, all through MolGen.forcefield_types.
    Every call either types every atom (hydrogens included) with its element's mass or raises the dedicated FfAssignmentError
    carrying the partial assignment and the molecule; the second typing of `first` equals the first one by value."""
    from rdkit import Chem

    ff._global_nonbonded_itp_file = ff._global_smarts_rule_file = ff._global_assignment_class = None
    pt = Chem.GetPeriodicTable()
    problems = []

    def type_once(smi, label):
        mg = g.Molecule(smi).generate()
        try:
            params, mol = mg.forcefield_types
        except ff.FfAssignmentError as e:
            d = getattr(e, "incomplete_ff_dict", None)
            m = getattr(e, "mol", None)
            if not isinstance(d, dict) or m is None or len(d) >= m.GetNumAtoms():
                problems.append(("error-without-partial-assignment", f"{label} {smi}: the assignment error does not carry a partial assignment and the molecule"))
            return None
        except Exception as e:  # any other exception type is not the dedicated error
            problems.append(("other-exception", f"{label} {smi}: raised {type(e).__name__} instead of a complete assignment or FfAssignmentError"))
            return None
        if len(params) != mol.GetNumAtoms():
            problems.append(("incomplete", f"{label} {smi}: {len(params)} of {mol.GetNumAtoms()} atoms typed"))
        snap = []
        for a in mol.GetAtoms():
            p_ = params.get(a.GetIdx())
            if p_ is None:
                continue
            if a.GetIsotope() == 0 and abs(p_.mass - pt.GetAtomicWeight(a.GetAtomicNum())) > 0.05:
                problems.append(("element-mass", f"{label} {smi}: atom {a.GetIdx()} {a.GetSymbol()} has mass {p_.mass} ({p_.bond_type_name})"))
            snap.append((a.GetIdx(), a.GetSymbol(), p_.bond_type_name, int(p_.bond_type_id), float(p_.mass), float(p_.charge), float(p_.sigma), float(p_.epsilon)))
        return snap

    s1 = type_once(first, "first typing of")
    type_once(between, "typing of")
    s2 = type_once(first, "second typing of")
    if s1 is not None and s2 is not None and s1 != s2:
        problems.append(("history", f"typing {first} again after {between} gives other parameters: {[x for x, y in zip(s1, s2) if x != y][:2]}"))
    return problems


# two atom orders of one molecule: fused and hetero-aromatic rings (ring perception and rule priority decide their types)
SPELLING_PAIRS = [("c1cccc2nc(ccc12)C", "c12ccccc2ccc(n1)C"), ("Cc1cc2ccccc2o1", "o1c(C)cc2ccccc12"), ("Cc1nccs1", "s1ccnc1C"), ("c1ccsn1", "n1sccc1"),
                  ("Cc1cscn1", "n1cscc1C"), ("CC(=O)Oc1ccccc1", "c1ccccc1OC(C)=O"), ("c12c(cccc2)cc(C)o1", "o1c2ccccc2cc1C"),
                  ("CC(c1cc2c(cccc2)nc1C)C", "CC(c1cc2ccccc2nc1C)C")]


def molgen_spelling_pair(g, ff, pair):
    """both atom orders typed through MolGen.forcefield_types (fresh assigner state): every atom has its element's mass and atoms
    of equal canonical rank get the same type in both"""
    from rdkit import Chem

    pt = Chem.GetPeriodicTable()
    problems = []
    snaps = []
    for smi in pair:
        ff._global_nonbonded_itp_file = ff._global_smarts_rule_file = ff._global_assignment_class = None
        mg = g.Molecule(smi).generate()
        try:
            params, mol = mg.forcefield_types
        except ff.FfAssignmentError:
            snaps.append("assignment error")
            continue
        except Exception as e:
            problems.append(("other-exception", f"{smi}: raised {type(e).__name__}"))
            snaps.append(None)
            continue
        if len(params) != mol.GetNumAtoms():
            problems.append(("incomplete", f"{smi}: {len(params)} of {mol.GetNumAtoms()} atoms typed"))
        ranks = list(Chem.CanonicalRankAtoms(mol, breakTies=False))
        snap = []
        for a in mol.GetAtoms():
            p_ = params.get(a.GetIdx())
            if p_ is None:
                continue
            if a.GetIsotope() == 0 and abs(p_.mass - pt.GetAtomicWeight(a.GetAtomicNum())) > 0.05:
                problems.append(("element-mass", f"{smi}: atom {a.GetIdx()} {a.GetSymbol()} has mass {p_.mass} ({p_.bond_type_name})"))
            snap.append((ranks[a.GetIdx()], a.GetSymbol(), p_.bond_type_name, float(p_.mass), float(p_.charge), float(p_.sigma), float(p_.epsilon)))
        snaps.append(sorted(snap))
    if len(snaps) == 2 and None not in snaps and snaps[0] != snaps[1]:
        d = [x for x in snaps[0] if x not in snaps[1]][:2] if isinstance(snaps[0], list) and isinstance(snaps[1], list) else snaps
        problems.append(("numbering", f"{pair[0]} and {pair[1]} are one molecule but are typed differently: {d}"))
    return problems


REAL_PAIRS = [("CCO", "OCC"), ("CC(=O)OC", "COC(C)=O"), ("CCCCN", "NCCCC"), ("c1ccccc1C", "Cc1ccccc1")]


def real_typing_history(ff, pair, first):
    """two spellings of one molecule typed one after the other on one assigner (real RDKit, bundled files):
    every atom gets the mass of its element, and the assignment is the same up to the atom mapping"""
    from rdkit import Chem

    ff._global_nonbonded_itp_file = ff._global_smarts_rule_file = ff._global_assignment_class = None
    sa = ff.get_assignment_class(None, None)
    pt = Chem.GetPeriodicTable()
    order = [pair[first], pair[1 - first]]
    results = []
    problems = []
    for smi in order:
        mol = Chem.AddHs(Chem.MolFromSmiles(smi))
        try:
            res = sa.get_type_assignments(mol)
        except ff.FfAssignmentError as e:
            problems.append(f"{smi}: not all atoms typed")
            continue
        for a in mol.GetAtoms():
            p_ = res.get(a.GetIdx())
            if p_ is None or abs(p_.mass - pt.GetAtomicWeight(a.GetAtomicNum())) > 0.05:
                problems.append(f"{smi}: atom {a.GetIdx()} {a.GetSymbol()} typed {None if p_ is None else (p_.bond_type_name, p_.mass)}")
        results.append((mol, res))
    if len(results) == 2:
        (m1, r1), (m2, r2) = results
        match = m2.GetSubstructMatch(m1)
        if len(match) == m1.GetNumAtoms():
            for i, j in enumerate(match):
                if r1[i] != r2[j] and m1.GetAtomWithIdx(i).GetAtomicNum() != 1:
                    problems.append(f"heavy atom {i}/{j} typed differently in the two spellings")
    return problems


def element_mass_mismatches(ff):
    from importlib.resources import files

    from rdkit import Chem

    ff._global_nonbonded_itp_file = None
    ff._global_smarts_rule_file = None
    ff._global_assignment_class = None
    sa = ff.SMARTS_ASSIGNMENTS(None, None)
    pt = Chem.GetPeriodicTable()
    bad = []
    for rule, typ in sa._rule_dict.items():
        m = re.match(r"\[\$\(\[(#\d+|[A-Za-z][a-z]?)", rule)
        if not m:
            continue
        el = m.group(1)
        z = int(el[1:]) if el.startswith("#") else pt.GetAtomicNumber(el.capitalize() if len(el) == 1 else el[0].upper() + el[1:])
        try:
            mass = sa.get_ffparam(sa.get_type(typ)).mass
        except KeyError:
            bad.append((typ, "no parameters"))
            continue
        if abs(mass - pt.GetAtomicWeight(z)) > 0.05:
            bad.append((typ, mass, pt.GetElementSymbol(z)))
    return bad


def replay(rp, gb):
    import shutil
    import tempfile
    from importlib.resources import files

    import gbigsmiles.forcefield_helper as ff

    if rp["kind"] == "history":
        d = tempfile.mkdtemp(prefix="c20-")
        try:
            base_r = str(files("gbigsmiles").joinpath("data", "opls.par"))
            base_n = str(files("gbigsmiles").joinpath("data", "ffnonbonded.itp"))
            lines = [l for l in open(base_r)]
            rules = [i for i, l in enumerate(lines) if l.strip() and l.strip()[0] != "*"]
            copy_r, mod_r = os.path.join(d, "copy.par"), os.path.join(d, "mod.par")
            copy_n, mod_n = os.path.join(d, "copy.itp"), os.path.join(d, "mod.itp")
            shutil.copy(base_r, copy_r)
            shutil.copy(base_n, copy_n)
            open(mod_r, "w").writelines(l for i, l in enumerate(lines) if i not in set(rules[:20]))
            # modified parameter file: every charge column replaced (same types, different numbers)
            out = []
            for l in open(base_n):
                f = l.split()
                if l and l[0] not in "[;" and len(f) >= 8 and f[0].startswith("opls_"):
                    f[4] = "9.999"
                    out.append(" " + "  ".join(f) + "\n")
                else:
                    out.append(l)
            open(mod_n, "w").writelines(out)
            all_problems = []
            for roles in ({"A": (copy_r, copy_n), "B": (mod_r, mod_n)}, {"A": (mod_r, mod_n), "B": (copy_r, copy_n)}):
                mapr = {None: None, "A": roles["A"][0], "B": roles["B"][0]}
                mapn = {None: None, "A": roles["A"][1], "B": roles["B"][1]}
                ff._global_nonbonded_itp_file = ff._global_smarts_rule_file = ff._global_assignment_class = None
                for (s, nb) in rp["history"]:
                    try:
                        obj = ff.get_assignment_class(mapr[s], mapn[nb])
                    except Exception as e:
                        all_problems.append(f"call {(s, nb)} raised {type(e).__name__}: {e}")
                        continue
                    fresh = ff.SMARTS_ASSIGNMENTS(mapr[s], mapn[nb])
                    if obj._rule_dict != fresh._rule_dict or obj._type_param != fresh._type_param:
                        all_problems.append(f"call {(s, nb)} returned an assigner that differs from a fresh reader of the same files "
                                            f"({len(obj._rule_dict)} vs {len(fresh._rule_dict)} rules)")
            return bool(all_problems), f"history {rp['history']}: {all_problems[:4]}"
        finally:
            shutil.rmtree(d, ignore_errors=True)
    if rp["kind"] == "selection":
        SA = ff.SMARTS_ASSIGNMENTS
        sa = SA.__new__(SA)
        sa._rule_dict = {r: t for r, t in zip(RULES, TYPES)}
        sa._type_dict = {t: i for i, t in enumerate(TYPES)}
        sa._type_dict_rev = {i: t for i, t in enumerate(TYPES)}
        sa._type_param = {t: ff.FFParam(mass=1.0 + i, charge=0.0, sigma=1.0, epsilon=1.0, bond_type_name=t) for i, t in enumerate(TYPES)}
        M, perm = rp["M"], rp["perm"]
        na = rp.get("na", 3)

        class FakeRule:
            def __init__(self, idx):
                self.idx = idx

        class FakeChem:
            @staticmethod
            def MolFromSmarts(rule):
                return FakeRule(RULES.index(rule))

        class FakeMol:
            def __init__(self, relabel):
                self.relabel = relabel

            def GetNumAtoms(self):
                return na

            def GetSubstructMatches(self, rule):
                return tuple(sorted((self.relabel[a],) for a in range(na) if M[rule.idx][a]))

        real = ff.Chem
        ff.Chem = FakeChem
        try:
            outs = []
            for rel in (list(range(na)), perm):
                try:
                    outs.append((sa.get_type_assignments(FakeMol(rel)), None))
                except ff.FfAssignmentError as e:
                    outs.append((None, e.incomplete_ff_dict))
        finally:
            ff.Chem = real
        want = {}
        for a in range(na):
            best = None
            for r in range(len(RULES)):
                if M[r][a] and (best is None or len(RULES[r]) > len(RULES[best])):
                    best = r
            if best is not None:
                want[a] = sa._type_param[TYPES[best]]
        if len(want) == na:
            bad = outs[0][0] != want or outs[1][0] != {perm[a]: want[a] for a in range(na)}
        else:
            bad = outs[0][1] != want or outs[1][1] != {perm[a]: want[a] for a in want}
        return bad, f"got {outs}, want {want}"
    if rp["kind"] == "refusal":
        tok = gb.SmilesToken(rp["text"], 0, 0)
        from gbigsmiles.mol_gen import MolGen

        mg = MolGen(tok)
        try:
            mg.get_forcefield_types()
            refused = False
        except RuntimeError:
            refused = True
        want = len(tok.bond_descriptors) > 0
        return refused != want, f"refused={refused} open={len(tok.bond_descriptors)}"
    if rp["kind"] == "filehist":
        import gbigsmiles.forcefield_helper as ffp

        problems = file_sequence(gb, ffp, FILE_HISTORIES[rp["history"]], rp["molecule"])
        return bool(problems), f"{[p_[1] for p_ in problems[:4]]}"
    if rp["kind"] == "molgenhist":
        import gbigsmiles.forcefield_helper as ffp

        problems = molgen_typing_sequence(gb, ffp, rp["first"], rp["between"])
        return bool(problems), f"{[p_[1] for p_ in problems[:4]]}"
    if rp["kind"] == "spellings":
        import gbigsmiles.forcefield_helper as ffp

        problems = molgen_spelling_pair(gb, ffp, tuple(rp["pair"]))
        return bool(problems), f"{[p_[1] for p_ in problems[:4]]}"
    if rp["kind"] == "realhist":
        problems = real_typing_history(ff, tuple(rp["pair"]), rp["first"])
        return bool(problems), str(problems[:4])
    if rp["kind"] == "masses":
        bad = element_mass_mismatches(ff)
        return bool(bad), str(bad[:5])
    return False, "unknown"
