"""Texts shared by the evidence files of C04-C08."""
from .gendrive import SKELETONS

_COMMON = (
    "The real Molecule.generate / Stochastic.generate / SmilesToken.generate / MolGen.attach_other / choose_compatible_weight run on "
    "z3 proxy values: every written positive weight and every transition-list entry is a fresh real in [1e-6, 1e6] (written zeros stay 0), "
    "every drawn target mass is a fresh real (unbounded below, < N x smallest unit mass above), and every rng.choice explores every element "
    "of positive probability. All feasible paths of each skeleton are enumerated; on each path the obligations below are z3 verdicts over all "
    "values of the symbolic variables of that path (or concrete RDKit evaluations of that path's molecule, where stated). "
)

META = {
    "functions": [
        "gbigsmiles.molecule.Molecule.generate", "gbigsmiles.stochastic.Stochastic.generate (get_start, add_repeat_unit, "
        "generate_repeat_units_and_finalize, finalize_mol)", "gbigsmiles.token.SmilesToken.generate", "gbigsmiles.mol_gen.MolGen.__init__",
        "gbigsmiles.mol_gen.MolGen.attach_other", "gbigsmiles.core.choose_compatible_weight", "gbigsmiles.core.get_compatible_bond_descriptor_ids",
        "gbigsmiles.bond.BondDescriptor.is_compatible", "gbigsmiles.core.BigSMILESbase.generate",
    ],
    "assumptions": [
        "python floats are modelled as mathematical reals; comparisons against measured masses use the very float the code computed",
        "numpy.random.Generator.choice contract: p >= 0, sum p = 1 else ValueError; an element of probability 0 is never returned, any other may be",
        "Distribution.draw_mw replaced by a nondeterministic stub returning an arbitrary real below the bound (the law of the draw is not part of this property)",
        "AllChem.EmbedMolecule / UFFOptimizeMolecule replaced by an all-zero conformer / no-op (3-D coordinates influence no property)",
        "numpy inside core.py / bond.py replaced by a list-backed shim with element-wise real arithmetic (division by an exact zero yields NaN as in numpy)",
        "RDKit is trusted and runs concretely on the (concrete) token chemistry of each skeleton",
        "weights bounded to {0} u [1e-6, 1e6]",
    ],
    "bounds": lambda tier: {
        "skeletons": [s["text"] for s in SKELETONS],
        "units per block N": 2 if tier == "quick" else 3,
        "weights": "{0} u [1e-6, 1e6], all equality patterns of the symbolic weights are explored (the code forks on them)",
        "targets": "(-inf, N * smallest unit mass)",
    },
    "budget": lambda tier: 900 if tier == "quick" else 3000,
    "C04": {
        "explanation": _COMMON + "C04: for every attach_other call (prefix attachment, growth, transition lists, capping, hand-over) the two "
        "descriptors are in range, were open, satisfy the conjugation rule (harness formula, not is_compatible), the new RDKit bond joins exactly their "
        "two atoms with their bond order, both are removed and all others survive with shifted indices; the inter-residue bonds of the final "
        "molecule are exactly the recorded attachments.",
        "outside": ["blocks longer than N units (no induction claimed)", "token chemistry beyond the skeleton list"],
        "required": ["C04:attachment indices are in range", "C04:every inter-residue bond of the molecule was formed by a recorded attachment"],
    },
    "C05": {
        "explanation": _COMMON + "C05: on every finished path the atoms partition into residue instances, each atom-by-atom identical (element, charge, "
        "isotope, internal bonds) to the token text parsed independently by RDKit with descriptors as dummy atoms; the residue graph is a tree with "
        "residues-1 bonds; sanitisation succeeds; hydrogen counts equal those of the written token; heavy-atom mass is the sum of residue masses. "
        "These chemistry assertions are concrete per path; the solver decides which paths (schedules, weight regions, target regions) exist.",
        "outside": ["aromaticity perception across residues", "blocks longer than N units"],
        "required": ["C05:residue graph is a tree", "C05:each residue is an unmodified copy of its token (elements, charges, isotopes, internal bonds)"],
    },
    "C06": {
        "explanation": _COMMON + "C06: for every closed skeleton no path ends in an exception, every path terminates within the unwinding bound, the result "
        "is fully generated, every descriptor of every residue formed exactly one bond, residues appear in element order, each "
        "prefix/connector/suffix once and each stochastic object at least one repeat unit, consecutive elements joined by exactly one bond, "
        "non-adjacent by none, end groups are leaves.",
        "outside": ["well-posedness is by construction of the skeleton list (closed flag), not by a general closability analysis", "blocks longer than N units"],
        "required": ["C06:molecule is fully generated (no open descriptor)", "C06:consecutive elements are joined by exactly one bond and non-adjacent elements by none"],
    },
    "C07": {
        "explanation": _COMMON + "C07: per block, with the drawn target t a solver variable: at least one unit; the mass the code compares equals (1e-6) the "
        "sum of the masses of the repeat units this block added (computed from token texts: prefix, earlier elements, capping end groups excluded); for every "
        "unit but the last z3 proves added <= t and for the last added > t (or no open descriptor was left) - so > vs >= is decided at the exact boundary; "
        "one draw per block; the number of units stays within N for t < N x smallest unit mass (unwinding assertion).",
        "outside": ["blocks longer than N units"],
        "required": ["C07:growth stops right after the first unit that exceeds the target", "C07:at least one unit is added"],
    },
    "C08": {
        "explanation": _COMMON + "C08: at every rng.choice call the candidate list equals the descriptors admitted by the conjugation rule for that call site "
        "(start, open pick, partner among repeat units, capping among end groups, hand-over matching the right terminal, token attachment), the probability "
        "vector is proved equal to the reference law (w_i / sum w, uniform when all candidate weights are equal incl. all zero; t_j / sum t for listed "
        "transitions over all descriptors in repeat-then-end order) as polynomial identities, sums to 1, and never contains NaN.",
        "outside": ["long-run frequencies (a statement about numpy's generator)", "blocks longer than N units"],
        "required": ["C08:probabilities sum to 1 (add_repeat_unit)", "C08:listed transition weights are followed exactly"],
    },
}
