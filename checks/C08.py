"""C08 — decided on the shared gen-driver (checks/gendrive.py) plus choose_compatible_weight in isolation."""
import sys

from . import gendrive
from .gendrive_meta import META

PROPERTY = "C08"
FUNCTIONS = gendrive_functions = META["functions"] + ["gbigsmiles.core.choose_compatible_weight in isolation (k arbitrary descriptor states)"]
EXPLANATION = META["C08"]["explanation"] + (
    " In isolation: choose_compatible_weight runs on a list of k descriptors in ARBITRARY constructor-producible states (symbol, any id, any of the five "
    "bond orders, any weight >= 0 including exact zeros and exact ties) and an arbitrary open descriptor (or none); on every path z3 proves that the options "
    "handed to the generator are exactly the descriptors the conjugation rule admits, that their probabilities are w_i / sum(w) (uniform when all weights "
    "are equal, all zero included), that they sum to 1, that the returned index is the option the generator picked, and that no weight was modified."
)
ASSUMPTIONS = META["assumptions"]
OUTSIDE = META["C08"]["outside"] + ["isolation: lists longer than 3 (quick) / 5 (thorough) descriptors"]
REQUIRED_LABELS = META["C08"]["required"] + ["isolated: options are the compatible descriptors", "isolated: weights untouched"]


def bounds(tier):
    b = dict(META["bounds"](tier))
    b["isolated choose_compatible_weight"] = "k <= 3 (quick) / 5 (thorough) descriptors in arbitrary states; weights any real >= 0 (zeros and ties included)"
    return b


def cases(tier):
    out = gendrive.gen_cases(tier)
    kmax = 3 if tier == "quick" else 5
    for k in range(1, kmax + 1):
        for bond in ("none", "state"):
            if k >= 4 and bond == "state":
                # shard the largest lists by the kind of the first descriptor
                for kind0 in (0, 1, 2):
                    out.append({"name": f"isolated/k{k}/{bond}/first{kind0}", "iso": True, "k": k, "bond": bond, "kind0": kind0})
            else:
                out.append({"name": f"isolated/k{k}/{bond}", "iso": True, "k": k, "bond": bond})
    return out


def run_case(case, g, tier, res):
    if case.get("iso"):
        return run_isolated(case, g, tier, res)
    gendrive.run_gen_case(case, g, tier, res, PROPERTY, {PROPERTY}, budget_s=META["budget"](tier))


def run_isolated(case, g, tier, res):
    from symx import core
    from symx.core import And, Implies, Not
    from symx.rng import SymRng
    from .common import sym_descriptor_state, rule_formula, state_text, collector, explore_case

    core_mod = sys.modules["gbigsmiles.core"]
    k, bondkind = case["k"], case["bond"]

    def h(c):
        bds, infos = [], []
        for i in range(k):
            bd, info = sym_descriptor_state(c, g, f"d{i}", with_weight=True)
            if i == 0 and "kind0" in case:
                kind = 0 if info["sym"] == "" else (1 if isinstance(info["id"], str) else 2)
                if kind != case["kind0"]:
                    raise core.Infeasible()
            bds.append(bd)
            infos.append(info)
        if bondkind == "none":
            bond, ibond = None, None
        else:
            bond, ibond = sym_descriptor_state(c, g, "bond", with_weight=True)
        w0 = [bd.weight for bd in bds]
        seen = []
        rng = SymRng(on_choice=lambda rec, cc: seen.append(rec))

        def detail(what):
            def build(mv, c):
                texts = [state_text(i, mv, c) for i in infos]
                bt = None if ibond is None else state_text(ibond, mv, c)
                pick = rng.calls[-1].index if rng.calls else None
                return (f"C08:isolated:{what}", f"choose_compatible_weight({texts}, {bt}): {what}",
                        {"kind": "isolated", "list": [list(t) for t in texts], "bond": None if bt is None else list(bt), "what": what, "pick": pick})
            return build

        adm = [True if ibond is None else rule_formula(ibond, infos[i]) for i in range(k)]
        try:
            idx = core_mod.choose_compatible_weight(bds, bond, rng)
        except ValueError:
            # numpy refuses an empty option list: only when nothing is compatible
            c.prove(Not(core.Or(*adm)) if k else True, "isolated: refusal only when nothing is compatible", detail("raised although a compatible descriptor exists"))
            return "refused"
        if not seen and len(rng.other_calls) == 1 and k > 0:
            # no rng.choice: the pick is computed from one uniform draw u (inverse-CDF sampling and the like).  Its law is the
            # measure of the draws leading to each index: on this path (which returns idx) the set of u satisfying the path
            # condition, weights fixed, must not be longer than the reference probability of idx by more than 10 points.
            import z3

            ii = int(idx)
            c.prove(0 <= ii < k and adm[ii], "isolated: options are the compatible descriptors", detail("the returned descriptor is not compatible"))
            comp = [i for i in range(k) if (adm[i] is True or (adm[i] is not False and bool(adm[i])))]
            ws = [w0[i] for i in comp]
            S = gendrive.total(ws)
            eq = And(*[w == ws[0] for w in ws[1:]]) if len(ws) > 1 else True
            u = rng.other_calls[0][1]
            uz = u.n.z3()
            u2 = z3.Real("u_other")
            A2 = z3.substitute(z3.And(*c.solver.assertions()), (uz, u2))
            wi = core._real(w0[ii])
            Sr = core._real(S)
            n = len(ws)
            tenth = z3.RealVal("1/10")
            prop_long = z3.And(A2, (u2 - uz) * Sr.term() > wi.term() + tenth * Sr.term())
            unif_long = z3.And(A2, (u2 - uz) * n > 1 + tenth * n)
            eqz = core._b(eq) if not isinstance(eq, bool) else z3.BoolVal(eq)
            c.prove(core.SymBool(z3.Not(z3.Or(z3.And(eqz, unif_long), z3.And(z3.Not(eqz), prop_long)))),
                    "isolated: pick law (measure of the uniform draw) follows the weights", detail("measure: an index is returned for a set of uniform draws longer than its probability by more than 10 points"))
            # for EVERY value of the draw in [0, 1), the boundaries included: an option of probability zero is never returned

            def detail_u(mv, c):
                sig, what, rp_ = detail("boundary: an option of weight zero is returned for some value of the uniform draw")(mv, c)
                rp_["u"] = float(c.eval_in(mv, u))
                return sig, what + f" (draw u = {rp_['u']!r})", rp_

            c.prove(core.Implies(Not(eq), wi > 0) if not isinstance(eq, bool) else (eq or wi > 0), "isolated: an option of probability zero is never returned, whatever the draw", detail_u)
            c.prove(And(*[bd.weight == w for bd, w in zip(bds, w0)]), "isolated: weights untouched", detail("a descriptor weight was modified by the pick"))
            return ("measure", ii)
        rec = seen[-1] if seen else None
        ok = rec is not None and len(seen) == 1
        c.prove(ok, "isolated: exactly one draw", detail("not exactly one rng.choice call"))
        items = [int(x) for x in rec.items]
        for i in range(k):
            c.prove(adm[i] == (i in items), "isolated: options are the compatible descriptors", detail("options differ from the compatible descriptors"))
        c.prove(items == sorted(set(items)) and rec.p is not None and len(rec.p) == len(items), "isolated: option list well formed", detail("option list / probability vector malformed"))
        ws = [w0[i] for i in items]
        S = gendrive.total(ws)
        eq = And(*[w == ws[0] for w in ws[1:]]) if len(ws) > 1 else True
        for j, i in enumerate(items):
            def near(a, b, scale):
                r = a == b
                if r is True:
                    return True
                return And(a - b <= scale * 1e-9, b - a <= scale * 1e-9)  # below what a replay in floating point can see

            c.prove(And(Implies(eq, near(rec.p[j] * len(ws), 1, len(ws))), Implies(Not(eq), near(rec.p[j] * S, ws[j], S))), "isolated: pick probability follows the weights",
                    detail("probability differs from w_i / sum(w) (uniform for equal weights)"))
            c.prove(Implies(And(Not(eq), ws[j] == 0), rec.p[j] == 0), "isolated: an option of weight zero has probability exactly zero",
                    detail("zero: an option of weight zero next to positive weights gets a positive probability"))
        c.prove(gendrive.total(list(rec.p)) == 1, "isolated: probabilities sum to 1", detail("probabilities do not sum to 1"))
        c.prove(int(idx) == items[rng.calls[-1].index], "isolated: returned index is the generator's pick", detail("returned index is not the option the generator picked"))
        c.prove(And(*[bd.weight == w for bd, w in zip(bds, w0)]), "isolated: weights untouched", detail("a descriptor weight was modified by the pick"))
        return items

    explore_case(res, h, tier, on_path=collector(res, PROPERTY), budget_s=META["budget"](tier))


def replay(rp, gb):
    if rp.get("kind") == "isolated":
        return replay_isolated(rp, gb)
    return gendrive.replay_gen(rp, gb)


def replay_isolated(rp, gb):
    import numpy as np
    from gbigsmiles.core import choose_compatible_weight
    from .C03 import _parse_ref, _rule

    bds = [gb.BondDescriptor(t, 0, p, 0) for p, t in rp["list"]]
    refs = [_parse_ref(p, t) for p, t in rp["list"]]
    if rp["bond"] is None:
        bond, adm = None, list(range(len(bds)))
    else:
        bond = gb.BondDescriptor(rp["bond"][1], 0, rp["bond"][0], 0)
        rb = _parse_ref(*rp["bond"])
        adm = [i for i, r in enumerate(refs) if _rule(rb, r)]
    w0 = [float(b.weight) for b in bds]
    if rp.get("what", "").startswith("boundary:"):
        class FixedU:
            def random(self, size=None):
                return rp["u"]

            def uniform(self, low=0.0, high=1.0, size=None):
                return low + (high - low) * rp["u"]

        try:
            j = int(choose_compatible_weight(bds, bond, FixedU()))
        except Exception as e:
            return False, f"raised {type(e).__name__}"
        ws = [w0[i] for i in adm]
        tie = all(w == ws[0] for w in ws)
        return (j in adm and w0[j] == 0 and not tie) or j not in adm, f"draw u={rp['u']!r} returns index {j} (weights {w0}, admissible {adm})"
    if rp.get("what", "").startswith("measure:"):
        # empirical law of the plain function (4000 seeded calls) against the reference probabilities
        rr = np.random.default_rng(99)
        cnt = {}
        for _ in range(4000):
            try:
                j = int(choose_compatible_weight(bds, bond, rr))
            except ValueError:
                return False, "refused"
            cnt[j] = cnt.get(j, 0) + 1
        ws = [w0[i] for i in adm]
        ref = {i: (1.0 / len(ws) if all(w == ws[0] for w in ws) else w0[i] / sum(ws)) for i in adm}
        worst = max((cnt.get(i, 0) / 4000.0 - ref.get(i, 0.0) for i in set(cnt) | set(ref)), default=0.0)
        return worst > 0.05, f"frequencies {cnt} of 4000 calls vs reference {ref}"
    seen = []
    rng = gendrive.ScriptedRng([rp.get("pick") or 0], on_choice=lambda rec, c: seen.append(rec))
    problems = []
    try:
        idx = choose_compatible_weight(bds, bond, rng)
    except (ValueError, gendrive.ReplayDone) as e:
        if adm and isinstance(e, ValueError):
            problems.append("raised although a compatible descriptor exists")
        return bool(problems), f"{type(e).__name__}; {problems}"
    if len(seen) != 1:
        problems.append("not exactly one rng.choice call")
    else:
        rec = seen[0]
        items = [int(x) for x in rec.items]
        if items != adm:
            problems.append(f"options {items} differ from the compatible descriptors {adm}")
        elif rec.p is None or len(rec.p) != len(items):
            problems.append("probability vector malformed")
        else:
            ws = [w0[i] for i in items]
            ref = [1.0 / len(ws)] * len(ws) if all(w == ws[0] for w in ws) else [w / sum(ws) for w in ws]
            if any(abs(a - b) > 1e-9 for a, b in zip(rec.p, ref)):
                problems.append(f"probabilities {rec.p} differ from {ref}")
            if any(b == 0 and a != 0 for a, b in zip(rec.p, ref)):
                problems.append(f"an option of weight zero gets the probability {[a for a, b in zip(rec.p, ref) if b == 0]}")
            if int(idx) != items[rng.calls[-1].index]:
                problems.append("returned index is not the generator's pick")
    if [float(b.weight) for b in bds] != w0:
        problems.append("a descriptor weight was modified")
    return bool(problems), f"{problems}"
