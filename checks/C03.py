"""C03 — bond-descriptor compatibility is exactly the BigSMILES conjugation rule."""
from __future__ import annotations

import z3

from symx import core
from symx.core import And, Or, Not
from symx.symstr import SymStr, fresh_char, Num

from . import common
from .common import sym_descriptor_state, rule_formula, state_text, collector, explore_case

PROPERTY = "C03"
FUNCTIONS = [
    "gbigsmiles.bond.BondDescriptor.is_compatible",
    "gbigsmiles.bond.BondDescriptor.__init__ (bond order from preceding characters, id, weight forms)",
    "gbigsmiles.core.get_compatible_bond_descriptor_ids",
]
EXPLANATION = (
    "Two descriptors in every state the constructor can produce (symbol in {[],$,<,>}; id absent or ANY non-negative "
    "integer; bond order any of the five the parser assigns; weight absent / any real / list of any reals) are built as "
    "symbolic attribute states and as symbolic texts (symbolic prefix characters, symbol, id digits, numeral weights); the "
    "real is_compatible runs on them and on every path z3 proves result <=> rule formula, symmetry, and that no weight "
    "variable occurs in the path condition (non-interference). The candidate filter is proved to return exactly the "
    "indices the formula admits."
)
ASSUMPTIONS = [
    "python float modelled as mathematical real (weights only; they never reach a comparison here)",
    "numeral atoms: float(repr(x)) == x for the weight texts",
    "descriptor states are restricted to those BondDescriptor.__init__ can produce ([] has no id and UNSPECIFIED order)",
]
OUTSIDE = ["stereo prefix characters (rejected by the constructor; checked to raise)"]
REQUIRED_LABELS = ["compat==rule", "compat==rule after earlier questions", "symmetric", "weights-not-in-pc", "bond-order-from-prefix", "filter==rule", "text compat==rule"]


def bounds(tier):
    return {"ids": "unbounded integers >= 0", "orders": [1, 2, 3, 4, 7], "filter list length": 2 if tier == "quick" else 4,
            "prefix length": "2 (single descriptor), 1 (pairs)", "id digits (text level)": "2 (single), 1 quick / 2 thorough (pairs)", "weight list length": "0, 1 or 2 entries"}


def cases(tier):
    out = []
    for wf in ("none", "scalar", "list"):
        out.append({"name": f"state-pair/{wf}", "kind": "state", "wf": wf})
    out.append({"name": "state-triple/history", "kind": "triple"})
    for wf in ("none", "scalar", "list"):
        out.append({"name": f"text-single/{wf}", "kind": "text", "wf": wf, "single": True, "plen": 2, "nid": 2})
    for wf in ("none", "scalar"):
        for pa in (0, 1):
            for pb in (0, 1):
                out.append({"name": f"text-pair/{wf}/p{pa}{pb}", "kind": "text", "wf": wf, "single": False,
                            "plen_a": pa, "plen_b": pb, "nid": 1 if tier == "quick" else 2})
    nmax = 2 if tier == "quick" else 4
    for n in range(1, nmax + 1):
        for bondkind in ("none", "state"):
            out.append({"name": f"filter/n{n}/{bondkind}", "kind": "filter", "n": n, "bond": bondkind})
    out.append({"name": "stereo-prefix-rejected", "kind": "stereo"})
    return out


def _cex_pair(ia, ib, result, what):
    def detail(mv, c):
        pa, ta = state_text(ia, mv, c)
        pb, tb = state_text(ib, mv, c)
        return (f"is_compatible:{what}", f"is_compatible({pa}{ta}, {pb}{tb}) {what}",
                {"kind": "pair", "a": [pa, ta], "b": [pb, tb]})
    return detail


def run_case(case, g, tier, res):
    on_path = collector(res, PROPERTY)
    kind = case["kind"]
    if kind == "state":
        wf = case["wf"]

        def h(c):
            ll = 2 if wf == "list" else 0
            a, ia = sym_descriptor_state(c, g, "a", with_weight=wf != "none", list_len=ll, neg_weights=True)  # "[<|-1|]" parses: not generable, still a descriptor
            b, ib = sym_descriptor_state(c, g, "b", with_weight=wf != "none", list_len=ll, neg_weights=True)
            r1 = a.is_compatible(b)
            r2 = b.is_compatible(a)
            f = rule_formula(ia, ib)
            c.prove(f == r1 if not isinstance(f, bool) else f == r1, "compat==rule", _cex_pair(ia, ib, r1, "differs from the conjugation rule"))
            # the same object on both sides is a pair like any other ($ bonds with $: head-to-head addition of two copies)
            r0 = a.is_compatible(a)
            c.prove(rule_formula(ia, ia) == r0, "compat==rule", _cex_pair(ia, ia, r0, "of a descriptor with ITSELF (one object on both sides) differs from the conjugation rule"))
            c.prove(r1 == r2, "symmetric", _cex_pair(ia, ib, r1, "is not symmetric"))
            used = common.vars_in_path_condition(c)
            wvars = [n for n in used if n.split("!")[0].endswith("_w") or n.split("!")[0][-3:-1] == "_t"]
            c.prove(len(wvars) == 0, "weights-not-in-pc", _cex_pair(ia, ib, r1, "depends on a weight"))
            return (str(ia["sym"]), str(ib["sym"]), r1)

        explore_case(res, h, tier, on_path=on_path)
    elif kind == "triple":
        # the answer for one pair must not depend on what the same objects were asked before
        def h(c):
            a, ia = sym_descriptor_state(c, g, "a", with_weight=False)
            b, ib = sym_descriptor_state(c, g, "b", with_weight=False)
            b2, ib2 = sym_descriptor_state(c, g, "b2", with_weight=False)
            seq = [(a, ia, b, ib), (a, ia, b2, ib2), (b2, ib2, a, ia), (b, ib, a, ia), (a, ia, b, ib)]
            for k, (x, ix, y, iy) in enumerate(seq):
                r = x.is_compatible(y)
                f = rule_formula(ix, iy)

                def detail(mv, c, k=k, ix=ix, iy=iy):
                    texts = [[list(state_text(p_, mv, c)), list(state_text(q_, mv, c))] for (_, p_, _, q_) in seq[: k + 1]]
                    return ("is_compatible:depends on earlier questions", f"after the questions {texts[:-1]}, is_compatible{tuple(map(tuple, texts[-1]))} differs from the conjugation rule",
                            {"kind": "sequence", "pairs": texts})
                c.prove(f == r, "compat==rule after earlier questions", detail)
            return "ok"

        explore_case(res, h, tier, on_path=on_path)
    elif kind == "text":
        wf = case["wf"]

        def build(c, name):
            if case["single"]:
                plen = c.fresh_int(f"{name}_plen", 0, case["plen"]).__index__()
            else:
                plen = case["plen_" + name]
            prefix = SymStr([fresh_char(f"{name}_p{i}", "-=#:$()") for i in range(plen)])
            prefix = prefix if plen else ""
            sym = fresh_char(f"{name}_s", "$<>")
            nid = c.fresh_int(f"{name}_nid", 0, case["nid"]).__index__()
            digits = [fresh_char(f"{name}_d{i}", "0123456789") for i in range(nid)]
            parts = ["[", sym] + digits
            wv = None
            if wf == "scalar":
                wv = c.fresh_real(f"{name}_w", 0)
                parts += ["|", Num(wv, "float"), "|"]
            elif wf == "list":
                wv = [c.fresh_real(f"{name}_t{i}", 0) for i in range(2)]
                parts += ["|", Num(wv[0], "float"), " ", Num(wv[1], "float"), "|"]
            parts.append("]")
            text = SymStr.of(*parts)
            bd = g.BondDescriptor(text, 0, prefix, 0)
            return bd, prefix, sym, digits, wv, text

        def txt(c, mv, prefix, text):
            def conc(s):
                if isinstance(s, str):
                    return s
                out = []
                for it in s.items:
                    if isinstance(it, str):
                        out.append(it)
                    elif isinstance(it, Num):
                        from symx.symstr import render_num

                        out.append(render_num(it, c.eval_in(mv, it.v)))
                    else:
                        out.append(chr(c.eval_in(mv, core.SymInt(it.e))))
                return "".join(out)
            return conc(prefix), conc(text)

        def h(c):
            a, pa, sa, da, wa, ta = build(c, "a")
            if case["single"]:
                b, pb, sb, db, wb, tb = g.BondDescriptor("[$]", 0, "", 0), "", None, [], None, "[$]"
            else:
                b, pb, sb, db, wb, tb = build(c, "b")

            def det(what):
                def detail(mv, c):
                    xa, ya = txt(c, mv, pa, ta)
                    xb, yb = txt(c, mv, pb, tb)
                    return (f"text:{what}", f"BondDescriptor({ya!r},prefix={xa!r}) vs ({yb!r},prefix={xb!r}): {what}",
                            {"kind": "pair", "a": [xa, ya], "b": [xb, yb]})
                return detail

            # bond order from the prefix, documented precedence : > $ > # > = > single
            for bd, p, nm in ((a, pa, "a"), (b, pb, "b")):
                def has(ch, p=p):
                    return False if isinstance(p, str) and ch not in p else (p.contains(ch) if not isinstance(p, str) else True)
                exp = core.Ite(has(":"), 7, core.Ite(has("$"), 4, core.Ite(has("#"), 3, core.Ite(has("="), 2, 1)))) if not isinstance(p, str) else 1
                code = int(bd.bond_type)
                c.prove(exp == code, "bond-order-from-prefix", det("bond order does not follow the prefix"))
            # ids: value of the digits
            def idval(ds):
                if not ds:
                    return ""
                e = z3.IntVal(0)
                for d in ds:
                    e = e * 10 + (d.e - 48)
                return core.SymInt(e)
            ia = {"sym": a.descriptor, "id": idval(da), "order": int(a.bond_type)}
            ib = {"sym": b.descriptor, "id": idval(db), "order": int(b.bond_type)}
            # symbols were forked by the parser ([1] not in ($,<,>)) -> concrete or still symbolic
            sa_c = a.descriptor if isinstance(a.descriptor, str) else common.symstr_concretise(a.descriptor)
            sb_c = b.descriptor if isinstance(b.descriptor, str) else common.symstr_concretise(b.descriptor)
            ia["sym"], ib["sym"] = sa_c, sb_c
            c.prove(c_eq(a.descriptor_id, ia["id"]), "id parsed", det("id differs from the written digits"))
            r1 = a.is_compatible(b)
            r2 = b.is_compatible(a)
            f = rule_formula(ia, ib)
            c.prove(f == r1, "text compat==rule", det("differs from the conjugation rule"))
            c.prove(r1 == r2, "symmetric", det("is not symmetric"))
            if wf == "scalar":
                c.prove(And(a.weight == wa, a.transitions is None), "weight parsed", det("weight differs from the written number"))
            if wf == "list":
                c.prove(And(a.weight == wa[0] + wa[1], a.transitions[0] == wa[0], a.transitions[1] == wa[1]), "weight parsed", det("list weight is not the sum"))
            if wf == "none":
                c.prove(And(a.weight == 1.0, a.transitions is None), "weight parsed", det("default weight is not 1"))
            return (sa_c, sb_c, r1)

        explore_case(res, h, tier, on_path=on_path)
    elif kind == "filter":
        n = case["n"]
        core_mod = __import__("sys").modules["gbigsmiles.core"]

        def h(c):
            bds, infos = [], []
            for i in range(n):
                bd, info = sym_descriptor_state(c, g, f"d{i}", with_weight=True)
                bds.append(bd)
                infos.append(info)
            if case["bond"] == "none":
                bond, ibond = None, None
            else:
                bond, ibond = sym_descriptor_state(c, g, "bond", with_weight=True)
            got = list(core_mod.get_compatible_bond_descriptor_ids(bds, bond))

            def detail(mv, c):
                texts = [state_text(i, mv, c) for i in infos]
                bt = None if ibond is None else state_text(ibond, mv, c)
                return ("filter", f"get_compatible_bond_descriptor_ids returns {got} for {texts} / {bt}",
                        {"kind": "filter", "list": [list(t) for t in texts], "bond": None if bt is None else list(bt)})

            for i in range(n):
                exp = True if ibond is None else rule_formula(ibond, infos[i])
                c.prove(exp == (i in got), "filter==rule", detail)
            c.prove(got == sorted(got) and len(set(got)) == len(got), "filter ordered", detail)
            return got

        explore_case(res, h, tier, on_path=on_path)
    elif kind == "stereo":
        def h(c):
            ch = fresh_char("st", "@/\\")
            other = fresh_char("o", "-=#:")
            pos = c.fresh_bool("first")
            prefix = SymStr([ch, other]) if pos else SymStr([other, ch])
            try:
                g.BondDescriptor("[$]", 0, prefix, 0)
            except RuntimeError:
                c.prove(True, "stereo rejected")
                return "rejected"
            def detail(mv, c):
                return ("stereo-accepted", "stereo prefix accepted", {"kind": "stereo", "prefix": "@"})
            c.prove(False, "stereo rejected", detail)

        explore_case(res, h, tier, on_path=on_path)


def c_eq(a, b):
    if a == "" or b == "":
        return a == "" and b == ""
    return a == b


# ---------------------------------------------------------------------------
# replay on the plain package

_ORDER = {"": 1, "-": 1}


def _parse_ref(prefix, text):
    """independent reading of a descriptor text: (sym, id, order)"""
    if text == "[]":
        return ("", "", 0)
    sym = text[1]
    body = text[2:-1]
    if "|" in body:
        body = body[: body.index("|")]
    idv = int(body) if body.strip() else ""
    order = 1
    if "=" in prefix:
        order = 2
    if "#" in prefix:
        order = 3
    if "$" in prefix:
        order = 4
    if ":" in prefix:
        order = 7
    return (sym, idv, order)


def _rule(a, b):
    if a[0] == "" or b[0] == "":
        return False
    if a[1] != b[1] or a[2] != b[2]:
        return False
    return (a[0], b[0]) in (("$", "$"), ("<", ">"), (">", "<"))


def replay(rp, gb):
    if rp["kind"] == "pair":
        (pa, ta), (pb, tb) = rp["a"], rp["b"]
        a = gb.BondDescriptor(ta, 0, pa, 0)
        b = gb.BondDescriptor(tb, 0, pb, 0)
        if (pa, ta) == (pb, tb) and bool(a.is_compatible(a)) != _rule(_parse_ref(pa, ta), _parse_ref(pa, ta)):
            return True, f"{pa}{ta}.is_compatible(itself) = {a.is_compatible(a)}, rule = {_rule(_parse_ref(pa, ta), _parse_ref(pa, ta))}"
        ra, rb = _parse_ref(pa, ta), _parse_ref(pb, tb)
        exp = _rule(ra, rb)
        r1, r2 = a.is_compatible(b), b.is_compatible(a)
        codes = (int(a.bond_type) if ta != "[]" else 0, int(b.bond_type) if tb != "[]" else 0)
        bad = (bool(r1) != exp) or (bool(r1) != bool(r2)) or codes != (ra[2], rb[2]) \
            or (ta != "[]" and a.descriptor_id != ra[1]) or (tb != "[]" and b.descriptor_id != rb[1])
        return bad, f"is_compatible={r1}/{r2} rule={exp} orders={codes} expected={(ra[2], rb[2])}"
    if rp["kind"] == "sequence":
        objs = {}

        def ob(pt):
            key = tuple(pt)
            if key not in objs:
                objs[key] = gb.BondDescriptor(pt[1], 0, pt[0], 0)
            return objs[key]

        bad = []
        for pa, pb in rp["pairs"]:
            r = ob(pa).is_compatible(ob(pb))
            exp = _rule(_parse_ref(*pa), _parse_ref(*pb))
            if bool(r) != exp:
                bad.append((pa, pb, bool(r), exp))
        return bool(bad), f"answers differing from the rule in sequence: {bad}"
    if rp["kind"] == "filter":
        from gbigsmiles.core import get_compatible_bond_descriptor_ids

        bds = [gb.BondDescriptor(t, 0, p, 0) for p, t in rp["list"]]
        refs = [_parse_ref(p, t) for p, t in rp["list"]]
        if rp["bond"] is None:
            bond, exp = None, list(range(len(bds)))
        else:
            bond = gb.BondDescriptor(rp["bond"][1], 0, rp["bond"][0], 0)
            rb = _parse_ref(*rp["bond"])
            exp = [i for i, r in enumerate(refs) if _rule(rb, r)]
        got = [int(i) for i in get_compatible_bond_descriptor_ids(bds, bond)]
        return got != exp, f"filter returned {got}, rule admits {exp}"
    if rp["kind"] == "stereo":
        try:
            gb.BondDescriptor("[$]", 0, rp["prefix"], 0)
        except RuntimeError:
            return False, "rejected"
        return True, "stereo prefix accepted"
    return False, "unknown replay kind"
