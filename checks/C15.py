"""C15 — ill-formed notation and misuse are rejected, never silently reinterpreted; parsing terminates."""
from __future__ import annotations

import sys

import z3
from rdkit import Chem

from symx import core, loader, symstr
from symx.core import And, Or, Not, SymInt
from symx.rng import SymRng
from symx.symstr import SymStr, SymChar, Num, fresh_char

from . import gendrive
from .C01 import text_of
from .C02 import ALPHA, _is
from .common import collector, explore_case

PROPERTY = "C15"
FUNCTIONS = [
    "gbigsmiles.token.SmilesToken.__init__", "gbigsmiles.bond.BondDescriptor.__init__", "gbigsmiles.stochastic.Stochastic.__init__ / _validate / generate (get_start)",
    "gbigsmiles.molecule.Molecule.__init__ / generable / generate", "gbigsmiles.mixture.Mixture.__init__ and setters", "gbigsmiles.system.System.__init__ / generator / generate",
    "gbigsmiles.distribution.get_distribution", "gbigsmiles.core.BigSMILESbase.generate", "gbigsmiles.mol_gen.MolGen.__init__", "gbigsmiles.atom.Atom.__init__",
]
EXPLANATION = (
    "One harness per rule. Each takes a valid template and applies the breaking operator symbolically - the position, the offending character(s) "
    "or the offending number are solver variables - and z3-guided exploration shows on every path that the constructor / generate call ends in an "
    "exception instead of returning: unbalanced branches (SMILES validity precondition with the balance clause negated), unclosed bracket, a descriptor "
    "followed by an atom inside a chain, unknown descriptor symbols, distribution names with one character changed, transition lists of the wrong length, "
    "negative weights (not generable, generate refuses), text after a mixture specifier, percentages outside 0-100, generation of non-generable objects, "
    "missing / mismatching prefix. Termination: fully symbolic short texts over the scanners' structural characters are fed to System / Molecule / "
    "Stochastic / SmilesToken / BondDescriptor / Mixture with an unwinding assertion on every while loop of the text layer (<= len(text)+3 iterations, "
    "counted by a tick the loader inserts in the checking process only)."
)
ASSUMPTIONS = ["any Exception raised by the call counts as a rejection (the type is recorded)", "one violated rule at a time",
               "numeral atoms for the offending numbers", "RDKit validates atoms concretely"]
OUTSIDE = ["texts longer than the stated lengths for termination", "rules not in the property's list (e.g. stray characters inside tokens)"]
REQUIRED_LABELS = ["unbalanced branches rejected", "descriptor between two atoms rejected", "unknown descriptor symbol rejected", "unknown distribution rejected",
                   "wrong transition list length rejected", "negative weight is not generable", "text after a mixture specifier rejected",
                   "percentage outside 0-100 rejected", "non-generable object refuses to generate", "missing or mismatching prefix rejected",
                   "parsing terminates"]


def bounds(tier):
    return {"token slots K": 6 if tier == "quick" else 8, "termination text length": 4 if tier == "quick" else 5,
            "termination alphabet": TERM_ALPHA}


TERM_ALPHA = "C{}[]$.|;,5 "
SYSTEM_TEXTS = ["C.|5|", "C.|50%|CC.|5|", "{[][<]CC[>]; [<]O, [>]N[]}|gauss(50,5)|.|100|"]


def cases(tier):
    out = []
    kmax = 6 if tier == "quick" else 8
    for K in range(2, kmax + 1):
        out.append({"name": f"unbalanced/K{K}", "kind": "unbalanced", "K": K})
        out.append({"name": f"two-atoms/K{K}", "kind": "twoatoms", "K": K})
    for k in ("bracket", "bracket2", "symbol", "distname", "translen", "negweight", "neglist", "aftermix", "percent", "nongen", "prefix"):
        out.append({"name": k, "kind": k})
    lmax = 4 if tier == "quick" else 5
    for cls in ("System", "Molecule", "Stochastic", "SmilesToken", "BondDescriptor", "Mixture"):
        for L in range(1, lmax + 1):
            out.append({"name": f"terminates/{cls}/L{L}", "kind": "term", "cls": cls, "L": L})
    for i, t in enumerate(SYSTEM_TEXTS):
        out.append({"name": f"truncate/{i}", "kind": "truncate", "text": t})
    return out


def expect_raise(c, fn, label, detail):
    try:
        out = fn()
    except Exception as e:
        core.reraise_if_harness(e)
        c.prove(True, label)
        return type(e).__name__
    c.prove(False, label, detail)
    return "accepted"


def _det(label, text_fn, extra=None):
    def build(mv, c):
        t = text_fn(mv, c)
        return (f"C15:{label}", f"{label}: {t!r} is accepted", {"kind": "reject", "label": label, "text": t, **(extra or {})})
    return build


def _slot_text(slots, dsym="$"):
    parts = []
    for s in slots:
        if s == "D":
            parts += ["[", dsym, "]"]
        else:
            parts.append(s)
    return SymStr.of(*parts)


def _grammar(slots, balance=True, terminal_descriptor=True):
    """the SMILES validity precondition of C02 with individual clauses switchable"""
    from .C02 import valid_precondition

    K = len(slots)
    conds = []

    def cls(i, chars):
        s = slots[i]
        if s == "D":
            return "D" in chars
        opts = [ch for ch in chars if ch != "D"]
        if not opts:
            return False
        return Or(*[_is(s, ch) for ch in opts])

    conds.append(cls(0, "CD"))
    conds.append(cls(K - 1, "C)D"))
    follow = {"C": "C()=#D", "(": "C=#D", ")": "C()=#D", "=": "CD", "#": "CD"}
    for i in range(K - 1):
        if slots[i] == "D":
            if terminal_descriptor:
                conds.append(cls(i + 1, "C=#" if i == 0 else ")"))
        else:
            for ch, nxt in follow.items():
                conds.append(core.Implies(_is(slots[i], ch), cls(i + 1, nxt)))
    depth = z3.IntVal(0)
    bal = []
    for i in range(K):
        if slots[i] == "D":
            continue
        depth = depth + z3.If(slots[i].e == ord("("), 1, 0) - z3.If(slots[i].e == ord(")"), 1, 0)
        bal.append(core.SymBool(depth >= 0))
    bal.append(core.SymBool(depth == 0))
    conds.append(Or(*[_is(s, "C") for s in slots if s != "D"]))
    return And(*conds), And(*bal)


def run_case(case, g, tier, res):
    on_path = collector(res, PROPERTY)
    kind = case["kind"]
    ST = g.SmilesToken

    if kind == "unbalanced":
        K = case["K"]

        def h(c):
            npos = c.fresh_int("dpos", -1, K - 1).__index__()  # -1: no descriptor
            slots = ["D" if i == npos else fresh_char(f"s{i}", ALPHA) for i in range(K)]
            gr, bal = _grammar(slots)
            c.assume(gr)
            c.assume(Not(bal))
            text = _slot_text(slots)
            return expect_raise(c, lambda: ST(text, 0, 0), "unbalanced branches rejected", _det("unbalanced branches rejected", lambda mv, c: text_of(c, mv, text)))

        explore_case(res, h, tier, on_path=on_path)
    elif kind == "twoatoms":
        K = case["K"]

        def h(c):
            npos = c.fresh_int("dpos", 1, K - 2).__index__() if K >= 3 else None
            if npos is None:
                return "n/a"
            slots = ["D" if i == npos else fresh_char(f"s{i}", ALPHA) for i in range(K)]
            gr, bal = _grammar(slots, terminal_descriptor=False)
            c.assume(And(gr, bal))
            # the descriptor sits between two atoms of a chain: next slot is an atom (or a bond towards one)
            c.assume(Or(_is(slots[npos + 1], "C"), _is(slots[npos + 1], "="), _is(slots[npos + 1], "#")))
            text = _slot_text(slots)
            return expect_raise(c, lambda: ST(text, 0, 0), "descriptor between two atoms rejected", _det("descriptor between two atoms rejected", lambda mv, c: text_of(c, mv, text)))

        explore_case(res, h, tier, on_path=on_path)
    elif kind == "bracket":
        def h(c):
            K = c.fresh_int("K", 2, 5).__index__()
            pos = c.fresh_int("pos", 0, K - 1).__index__()
            items = [("[" if i == pos else fresh_char(f"s{i}", "CO$<()")) for i in range(K)]
            text = SymStr(items)
            return expect_raise(c, lambda: ST(text, 0, 0), "unclosed bracket rejected", _det("unclosed bracket rejected", lambda mv, c: text_of(c, mv, text)))

        explore_case(res, h, tier, on_path=on_path)
    elif kind == "bracket2":
        # one bracket / brace of a well-formed stochastic object or molecule is missing (symbolic position)
        TEMPL = ["{[][$]CC[$]; [$][H][]}", "{[<][<]CC[>][>]}", "N{[<][<]CC[>], [<]CO[>][>]}|gauss(50,5)|O", "{[][<]CC[>]; [<]O, [>]N[]}|gauss(50,5)|"]

        def h(c):
            t = TEMPL[c.fresh_int("template", 0, len(TEMPL) - 1).__index__()]
            marks = [i for i, ch in enumerate(t) if ch in "[]{}" and not (t[i:i + 3] == "[H]" or t[i - 2:i + 1] == "[H]")]
            k = marks[c.fresh_int("missing", 0, len(marks) - 1).__index__()]
            text = t[:k] + t[k + 1:]
            make = (lambda: g.Molecule(text)) if not text.startswith("{") or "|" in text else (lambda: g.Stochastic(text, 0))
            det = _det("unbalanced bracket or brace rejected", lambda mv, c: text, {"sub": "bracket2"})
            try:
                obj = make()
            except Exception as e:
                core.reraise_if_harness(e)
                c.prove(True, "unbalanced bracket or brace rejected")
                return "rejected"
            # accepted: only acceptable if it still means the same text minus nothing, i.e. never: the text is ill-formed
            c.prove(False, "unbalanced bracket or brace rejected", det)
            return "accepted"

        explore_case(res, h, tier, on_path=on_path)
    elif kind == "symbol":
        bad = "".join(ch for ch in map(chr, range(33, 127)) if ch not in "$<>[]|{},;" and Chem.MolFromSmiles(f"[{ch}]") is None)

        def h(c):
            ch = fresh_char("sym", bad)
            where = c.fresh_int("where", 0, 3).__index__()
            if where == 0:
                text = SymStr.of("[", ch, "]")
                f = lambda: g.BondDescriptor(text, 0, "", 0)
            elif where == 1:
                text = SymStr.of("{[", ch, "][<]CC[>][>]}|gauss(50,5)|")
                f = lambda: g.Stochastic(text, 0)
            elif where == 2:
                text = SymStr.of("{[][<]CC[", ch, "]; [<]O, [>]N[]}|gauss(50,5)|")
                f = lambda: g.Molecule(text)
            else:
                text = SymStr.of("{[<][<]CC[>][", ch, "]}|gauss(50,5)|")
                f = lambda: g.Stochastic(text, 0)
            return expect_raise(c, f, "unknown descriptor symbol rejected", _det("unknown descriptor symbol rejected", lambda mv, c: text_of(c, mv, text)))

        explore_case(res, h, tier, on_path=on_path)
    elif kind == "distname":
        fams = ["gauss", "flory_schulz", "schulz_zimm", "uniform", "log_normal", "poisson"]
        args = {"gauss": "(50, 5)", "flory_schulz": "(0.1)", "schulz_zimm": "(60, 50)", "uniform": "(10, 50)", "log_normal": "(50, 1.2)", "poisson": "(30)"}
        dmod = sys.modules["gbigsmiles.distribution"]

        def h(c):
            fi = c.fresh_int("fam", 0, 5).__index__()
            fam = fams[fi]
            op = c.fresh_int("op", 0, 2).__index__()  # 0 replace a character, 1 drop a character, 2 insert a character
            pos = c.fresh_int("pos", 0, len(fam) - (0 if op == 2 else 1)).__index__()
            if op == 0:
                ch = fresh_char("ch", "abxz_q")
                c.add(ch.e != ord(fam[pos]))
                name = SymStr.of(fam[:pos], ch, fam[pos + 1:])
            elif op == 1:
                name = fam[:pos] + fam[pos + 1:]
            else:
                ch = fresh_char("ch", "abxz_q2")
                name = SymStr.of(fam[:pos], ch, fam[pos:])
            text = SymStr.of("|", name, args[fam], "|")
            via = c.fresh_int("via", 0, 1).__index__()
            if via == 0:
                f = lambda: dmod.get_distribution(text)
            else:
                full = SymStr.of("{[][<]CC[>]; [<]O, [>]N[]}", text)
                f = lambda: g.Stochastic(full, 0)
            return expect_raise(c, f, "unknown distribution rejected", _det("unknown distribution rejected", lambda mv, c: text_of(c, mv, text)))

        explore_case(res, h, tier, on_path=on_path)
    elif kind == "translen":
        def h(c):
            n = c.fresh_int("ndesc_choice", 0, 1).__index__()
            body, nd = [("[$]CC[$]; [$][H]", 3), ("[$]C([$])C=O,[$]CC([$])CO;[$][H], [$]O", 6)][n]
            L = c.fresh_int("listlen", 2, 8).__index__()
            if L == nd:
                return "n/a"
            ws = [c.fresh_real(f"t{i}", 0, 10) for i in range(L)]
            lst = []
            for i, w in enumerate(ws):
                if i:
                    lst.append(" ")
                lst.append(Num(w, "float"))
            # the list sits on any descriptor of the object: repeat units and end groups alike (symbolic position)
            closes = [i for i, ch in enumerate(body) if ch == "]" and body[i - 1] != "H"]
            first = closes[c.fresh_int("on_descriptor", 0, len(closes) - 1).__index__()]
            text = SymStr.of("{[]", body[:first], "|", *lst, "|", body[first:], "[]}|gauss(50,5)|")
            return expect_raise(c, lambda: g.Stochastic(text, 0), "wrong transition list length rejected",
                                _det("wrong transition list length rejected", lambda mv, c: text_of(c, mv, text)))

        explore_case(res, h, tier, on_path=on_path)
    elif kind == "negweight":
        T = "N{[<][<]CC[>], [<]CO[>][>]}|gauss(50,5)|O"

        def h(c):
            # a negative weight on one of the four repeat-unit descriptors (symbolic position)
            idx = c.fresh_int("which", 0, 3).__index__()
            w = c.fresh_real("w", None, 0, hi_strict=True)
            marks = [i for i in range(len(T)) if T.startswith("[<]", i) or T.startswith("[>]", i)]
            marks = [m for m in marks if 3 < m < T.index("}") - 3][:4]
            p = marks[idx] + 2
            text = SymStr.of(T[:p], "|", Num(w, "float"), "|", T[p:])
            det = _det("negative weight is not generable", lambda mv, c: text_of(c, mv, text), {"sub": "negweight"})
            try:
                mol = g.Molecule(text)
            except Exception as e:
                core.reraise_if_harness(e)
                c.prove(True, "negative weight is not generable")
                return "rejected at parse"
            c.prove(mol.generable is False or Not(mol.generable), "negative weight is not generable", det)
            rng = SymRng()
            from symx import gen
            gen.install_observers(g, gen.Observer())
            gen.DRAW_FN[0] = gen.symbolic_draw({}, 40)
            return expect_raise(c, lambda: mol.generate(rng=rng), "negative weight: generate refuses", det)

        explore_case(res, h, tier, on_path=on_path)
    elif kind == "neglist":
        # one NEGATIVE entry in a transition list whose sum is not negative: the descriptor counts as generable, the draw from the
        # list must refuse the negative probability (an error, never a molecule made from a clipped or re-normalised list)
        def h(c):
            which = c.fresh_int("which", 0, 1).__index__()
            x = c.fresh_real("x", 1e-3, 1e3)
            y = c.fresh_real("y", 1e-3, 1e3)
            c.assume(y >= x)
            vals = [-x, y] if which == 0 else [y, -x]
            text = SymStr.of("N{[<][<|", Num(vals[0], "float"), " ", Num(vals[1], "float"), "|]CC[>][>]}|gauss(50,5)|O")  # the list sits on the growing end
            det = _det("negative entry of a transition list: generate refuses", lambda mv, c: text_of(c, mv, text), {"sub": "neglist"})
            try:
                mol = g.Molecule(text)
            except Exception as e:
                core.reraise_if_harness(e)
                c.prove(True, "negative entry of a transition list: generate refuses")
                return "rejected at parse"
            rng = SymRng()
            from symx import gen
            gen.install_observers(g, gen.Observer())
            gen.DRAW_FN[0] = gen.scripted_draw([45.0])  # two units are needed: the second one is drawn from the list
            return expect_raise(c, lambda: mol.generate(rng=rng), "negative entry of a transition list: generate refuses", det)

        explore_case(res, h, tier, on_path=on_path)
    elif kind == "aftermix":
        def h(c):
            L = c.fresh_int("L", 1, 2).__index__()
            tail = SymStr([fresh_char(f"x{i}", "CO[]{}$ 1|.") for i in range(L)])
            c.assume(Not(tail.strip() == "") if not isinstance(tail.strip() == "", bool) else not (tail.strip() == ""))
            v = c.fresh_real("m", 1, 1e6)
            text = SymStr.of("CC.|", Num(v, "float"), "|", tail)
            return expect_raise(c, lambda: g.Molecule(text), "text after a mixture specifier rejected",
                                _det("text after a mixture specifier rejected", lambda mv, c: text_of(c, mv, text)))

        explore_case(res, h, tier, on_path=on_path)
    elif kind == "percent":
        def h(c):
            hi = c.fresh_bool("above")
            # any real outside [0, 100] (no bound, so that every printing class of the number is inside the claim), in any spelling
            v = c.fresh_real("p", 100, None, lo_strict=True) if hi else c.fresh_real("p", None, 0, hi_strict=True)
            via = c.fresh_int("via", 0, 2).__index__()
            style = (None, "plain", "sci", "sci-short", "sci-upper")[c.fresh_int("spelling", 0, 4).__index__()] if via != 2 else None
            text = SymStr.of(".|", Num(v, "float", style), "%|")
            det = _det("percentage outside 0-100 rejected", lambda mv, c: text_of(c, mv, text), {"via": via})
            if via == 0:
                f = lambda: g.Mixture(text)
            elif via == 1:
                full = SymStr.of("CC", text)
                f = lambda: g.System(full)
            else:
                def f():
                    m = g.Mixture(".|5|")
                    m.relative_mass = v
                    return m
            return expect_raise(c, f, "percentage outside 0-100 rejected", det)

        explore_case(res, h, tier, on_path=on_path)
    elif kind == "nongen":
        texts = ["{[][<]CC[>]; [<]O, [>]N[]}", "N{[<][<]CC[>][>]}O", "C.CC", "C.|10%|CC"]

        def h(c):
            i = c.fresh_int("which", 0, len(texts) - 1).__index__()
            t = texts[i]
            rng = SymRng()
            det = _det("non-generable object refuses to generate", lambda mv, c: t, {"sub": "nongen"})
            if "." in t:
                obj = g.System(t)
                c.prove(obj.generable is False, "non-generable object reports so", det)
                sysmod = sys.modules["gbigsmiles.system"]
                sysmod.System.generator.fget.__defaults__ = (rng,)
                expect_raise(c, lambda: next(iter(obj.generator)), "non-generable object refuses to generate", det)
                det2 = _det("System.generate refuses a system that reports not generable", lambda mv, c: t, {"sub": "nongen-single"})
                return expect_raise(c, lambda: obj.generate(rng=rng), "System.generate refuses a system that reports not generable", det2)
            obj = g.Molecule(t)
            c.prove(obj.generable is False, "non-generable object reports so", det)
            return expect_raise(c, lambda: obj.generate(rng=rng), "non-generable object refuses to generate", det)

        explore_case(res, h, tier, on_path=on_path)
    elif kind == "prefix":
        def h(c):
            if bool(c.fresh_bool("empty_left_terminal")):
                # an empty left terminal '[]' takes no prefix at all: any prefix with an open descriptor differs from it
                ps = fresh_char("ps", "$<>")
                text = "{[][<]CC[>], [$]CC[$]; [$][H], [<]O, [>]N[]}|gauss(50,5)|"
                ptxt = SymStr.of("N[", ps, "]")
                det = _det("missing or mismatching prefix rejected", lambda mv, c: text + " mode=3 prefix=" + text_of(c, mv, ptxt), {"mode": 3})
                st = g.Stochastic(text, 0)
                rng = SymRng()
                from symx import gen
                gen.install_observers(g, gen.Observer())
                gen.DRAW_FN[0] = gen.symbolic_draw({}, 40)
                pre = g.SmilesToken(ptxt, 0, 0).generate(rng=rng)
                return expect_raise(c, lambda: st.generate(prefix=pre, rng=rng), "missing or mismatching prefix rejected", det)
            lt = fresh_char("lt", "$<>")
            has_id = c.fresh_bool("lt_id")
            ltid = fresh_char("ltid", "0123456789") if has_id else None
            mode = c.fresh_int("mode", 0, 2).__index__()  # 0: no prefix, 1: prefix with other symbol, 2: prefix with other id
            conj = {"$": "$", "<": ">", ">": "<"}
            ltxt = SymStr.of("[", lt, *( [ltid] if ltid is not None else []), "]")
            ru = "[$]CC[$]" if False else None
            # repeat unit compatible with whatever the terminal is: offer all three kinds
            text = SymStr.of("{", ltxt, "[<]CC[>], [$]CC[$]; [$][H], [<]O, [>]N[]}|gauss(50,5)|")
            # ids on the terminal make the units incompatible, which is fine: the prefix check comes first
            st = g.Stochastic(text, 0)
            rng = SymRng()
            from symx import gen
            gen.install_observers(g, gen.Observer())
            gen.DRAW_FN[0] = gen.symbolic_draw({}, 40)
            det = _det("missing or mismatching prefix rejected", lambda mv, c: text_of(c, mv, text) + f" mode={mode}", {"mode": mode})
            if mode == 0:
                return expect_raise(c, lambda: st.generate(prefix=None, rng=rng), "missing or mismatching prefix rejected", det)
            ps = fresh_char("ps", "$<>")
            pid = fresh_char("pid", "0123456789") if c.fresh_bool("p_id") else None
            same_sym = ps.e == lt.e
            if (pid is None) != (ltid is None):
                same_id = False
            elif pid is None:
                same_id = True
            else:
                same_id = core.SymBool(pid.e == ltid.e)
            c.assume(Not(And(core.SymBool(same_sym), same_id)))
            ptxt = SymStr.of("N[", ps, *([pid] if pid is not None else []), "]")
            det = _det("missing or mismatching prefix rejected", lambda mv, c: text_of(c, mv, text) + f" mode={mode} prefix=" + text_of(c, mv, ptxt), {"mode": mode})
            tok = g.SmilesToken(ptxt, 0, 0)
            pre = tok.generate(rng=rng)
            return expect_raise(c, lambda: st.generate(prefix=pre, rng=rng), "missing or mismatching prefix rejected", det)

        explore_case(res, h, tier, on_path=on_path)
    elif kind == "term":
        cls, L = case["cls"], case["L"]
        make = {"System": lambda t: g.System(t), "Molecule": lambda t: g.Molecule(t), "Stochastic": lambda t: g.Stochastic(t, 0),
                "SmilesToken": lambda t: g.SmilesToken(t, 0, 0), "BondDescriptor": lambda t: g.BondDescriptor(t, 0, "", 0), "Mixture": lambda t: g.Mixture(t)}[cls]

        def h(c):
            text = SymStr([fresh_char(f"c{i}", TERM_ALPHA) for i in range(L)])
            loader.reset_ticks(L + 3)
            det = lambda mv, c: (f"C15:parsing terminates:{cls}", f"{cls}({text_of(c, mv, text)!r}) does not terminate (a scanner loop exceeds len+3 iterations)",
                                 {"kind": "term", "cls": cls, "text": text_of(c, mv, text)})
            try:
                make(text)
                out = "accepted"
            except loader.LoopBound:
                loader.reset_ticks(None)
                c.prove(False, "parsing terminates", det)
                return "loop"
            except Exception as e:
                core.reraise_if_harness(e)
                out = type(e).__name__
            finally:
                loader.reset_ticks(None)
            c.prove(True, "parsing terminates")
            return out

        explore_case(res, h, tier, on_path=on_path, budget_s=900)
    elif kind == "truncate":
        T = case["text"]

        def h(c):
            cut = c.fresh_int("cut", 1, len(T) - 1).__index__()
            t = T[:cut]
            loader.reset_ticks(len(t) + 3)
            det = lambda mv, c: ("C15:parsing terminates:System", f"System({t!r}) does not terminate", {"kind": "term", "cls": "System", "text": t})
            try:
                g.System(t)
            except loader.LoopBound:
                loader.reset_ticks(None)
                c.prove(False, "parsing terminates", det)
                return "loop"
            except Exception as e:
                core.reraise_if_harness(e)
            finally:
                loader.reset_ticks(None)
            c.prove(True, "parsing terminates")
            return "ok"

        explore_case(res, h, tier, on_path=on_path)


# ---------------------------------------------------------------------------


def replay(rp, gb):
    import multiprocessing as mp

    if rp["kind"] == "term":
        # run under a wall-clock limit in a child process
        import subprocess

        code = (f"import gbigsmiles as g, warnings; warnings.simplefilter('ignore')\n"
                f"mk = {{'System': g.System, 'Molecule': g.Molecule, 'Stochastic': lambda t: g.Stochastic(t, 0), 'SmilesToken': lambda t: g.SmilesToken(t, 0, 0), "
                f"'BondDescriptor': lambda t: g.BondDescriptor(t, 0, '', 0), 'Mixture': g.Mixture}}[{rp['cls']!r}]\n"
                f"try:\n    mk({rp['text']!r})\nexcept Exception as e:\n    pass\nprint('returned')\n")
        try:
            r = subprocess.run([sys.executable, "-c", code], capture_output=True, text=True, timeout=20)
            return False, f"returned within 20 s: {r.stdout.strip()[-40:]}"
        except subprocess.TimeoutExpired:
            return True, f"{rp['cls']}({rp['text']!r}) did not return within 20 s"
    label, t = rp["label"], rp["text"]
    import gbigsmiles.distribution as dmod
    import numpy as np

    def raises(f):
        try:
            f()
        except Exception:
            return True
        return False

    if label == "unbalanced branches rejected" or label == "descriptor between two atoms rejected" or label == "unclosed bracket rejected":
        ok = raises(lambda: gb.SmilesToken(t, 0, 0))
    elif label == "unbalanced bracket or brace rejected":
        ok = raises(lambda: gb.Molecule(t)) if (not t.startswith("{") or "|" in t) else raises(lambda: gb.Stochastic(t, 0))
    elif label == "unknown descriptor symbol rejected":
        if t.startswith("{"):
            ok = raises(lambda: gb.Molecule(t)) and raises(lambda: gb.Stochastic(t, 0))
        else:
            ok = raises(lambda: gb.BondDescriptor(t, 0, "", 0))
    elif label == "unknown distribution rejected":
        ok = raises(lambda: dmod.get_distribution(t)) and raises(lambda: gb.Stochastic("{[][<]CC[>]; [<]O, [>]N[]}" + t, 0))
    elif label == "wrong transition list length rejected":
        ok = raises(lambda: gb.Stochastic(t, 0))
    elif label == "text after a mixture specifier rejected":
        ok = raises(lambda: gb.Molecule(t))
    elif label == "percentage outside 0-100 rejected":
        via = rp.get("via", 0)
        if via == 0:
            ok = raises(lambda: gb.Mixture(t))
        elif via == 1:
            ok = raises(lambda: gb.System("CC" + t))
        else:
            def f():
                m = gb.Mixture(".|5|")
                m.relative_mass = float(t.strip(".|%"))
            ok = raises(f)
    elif label.startswith("negative entry of a transition list"):
        from symx import gen as _gen

        _gen.restore_draws(gb)

        def one(seed):
            m = gb.Molecule(t.replace("gauss(50,5)", "gauss(50,0.001)"))  # two units in every draw
            m.generate(rng=np.random.default_rng(seed))
        ok = all(raises(lambda s_=s_: one(s_)) for s_ in range(6))
    elif label in ("negative weight is not generable", "negative weight: generate refuses"):
        def f():
            m = gb.Molecule(t)
            if m.generable:
                return
            m.generate(rng=np.random.default_rng(1))
        try:
            m = gb.Molecule(t)
            ok = (not m.generable) and raises(lambda: m.generate(rng=np.random.default_rng(1)))
        except Exception:
            ok = True
    elif label.startswith("System.generate refuses"):
        s = gb.System(t)
        ok = (s.generable is False) and raises(lambda: s.generate(rng=np.random.default_rng(1)))
    elif label.startswith("non-generable"):
        if "." in t:
            s = gb.System(t)
            ok = (s.generable is False) and raises(lambda: next(iter(s.generator)))
        else:
            m = gb.Molecule(t)
            ok = (m.generable is False) and raises(lambda: m.generate(rng=np.random.default_rng(1)))
    elif label == "missing or mismatching prefix rejected":
        text, mode = t.rsplit(" mode=", 1)
        st = gb.Stochastic(text, 0)
        if " prefix=" in mode:
            mode, ptxt = mode.split(" prefix=", 1)
            # rejected means rejected whatever the generator draws: a handful of seeds stand in for the symbolic picks
            ok = all(raises(lambda: st.generate(prefix=gb.SmilesToken(ptxt, 0, 0).generate(rng=np.random.default_rng(sd)), rng=np.random.default_rng(sd)))
                     for sd in range(12))
        else:
            ok = raises(lambda: st.generate(prefix=None, rng=np.random.default_rng(1))) if mode == "0" else True
    else:
        return False, "unknown label"
    return (not ok), f"{label}: {t!r} -> {'rejected' if ok else 'ACCEPTED'}"
