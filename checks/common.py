"""Helpers shared by the checks."""
from __future__ import annotations

import sys
import time

import z3

from symx import core
from symx.core import SymBool, SymInt, SymReal, And, Or, Not
from symx.harness import Candidate
from symx.npshim import Arr
from symx.symstr import SymStr, SymChar, Num, fresh_char

BOND_CODES = {"UNSPECIFIED": 0, "SINGLE": 1, "DOUBLE": 2, "TRIPLE": 3, "QUADRUPLE": 4, "ONEANDAHALF": 7}
PREFIX_FOR_ORDER = {1: "", 2: "=", 3: "#", 4: "$", 7: ":"}


class SymEnum:
    """Symbolic member of rdkit's BondType enum: supports only == / !=."""

    __slots__ = ("code",)

    def __init__(self, code):
        self.code = code  # SymInt

    def __deepcopy__(self, memo):
        return self

    def _c(self, o):
        if isinstance(o, SymEnum):
            return o.code
        return int(o)

    def __eq__(self, o):
        return self.code == self._c(o)

    def __ne__(self, o):
        return self.code != self._c(o)

    def __hash__(self):
        return id(self)

    def __int__(self):
        return int(self.code)


def sym_descriptor_state(c, g, name, allow_empty=True, with_weight=True, list_len=0, neg_weights=False):
    """A BondDescriptor object in an arbitrary state the constructor can produce:
    `[]` (no symbol, no id, UNSPECIFIED order) or symbol in {$, <, >} (symbolic character),
    id '' or any integer >= 0, bond order one of the five codes the parser can assign.
    Returns (bd, info)."""
    BD = g.BondDescriptor
    # built by the real constructor (so that every attribute the class keeps exists), then moved into the symbolic state
    bd = BD("[]", 0, "", 0)
    kind = c.fresh_int(f"{name}_kind", 0 if allow_empty else 1, 2).__index__()  # 0:[] 1:no id 2:id
    bd._raw_text = None
    bd.descriptor_num = 0
    bd.preceding_characters = ""
    bd.atom_bonding_to = 0
    bd.bond_stereo = g.bond.rc.BondStereo.STEREOANY
    if kind == 0:
        bd.descriptor = ""
        bd.descriptor_id = ""
        bd.bond_type = g.bond.rc.BondType.UNSPECIFIED
        bd.weight = 1.0
        bd.transitions = None
        return bd, {"sym": "", "id": "", "order": 0, "weight": 1.0, "transitions": None}
    ch = fresh_char(f"{name}_sym", "$<>")
    bd.descriptor = SymStr((ch,))
    if kind == 2:
        idv = c.fresh_int(f"{name}_id", 0)
    else:
        idv = ""
    bd.descriptor_id = idv
    order = c.fresh_int(f"{name}_order")
    c.add(z3.Or(*[order.e == v for v in (1, 2, 3, 4, 7)]))
    bd.bond_type = SymEnum(order)
    if with_weight:
        if list_len:
            ts = [c.fresh_real(f"{name}_t{i}", None if neg_weights else 0) for i in range(list_len)]
            bd.transitions = Arr(ts)
            bd.weight = bd.transitions.sum()
        else:
            bd.transitions = None
            bd.weight = c.fresh_real(f"{name}_w", None if neg_weights else 0)
    else:
        bd.transitions = None
        bd.weight = 1.0
    return bd, {"sym": ch, "id": idv, "order": order, "weight": bd.weight, "transitions": bd.transitions}


def _sym_is(s, ch):
    if isinstance(s, str):
        return s == ch
    if isinstance(s, SymStr):
        s = s.items[0]
        if isinstance(s, str):
            return s == ch
    return SymBool(s.e == ord(ch))


def rule_formula(a, b):
    """The BigSMILES conjugation rule on two descriptor infos (independent of the code)."""
    if isinstance(a["sym"], str) and a["sym"] == "":
        return False
    if isinstance(b["sym"], str) and b["sym"] == "":
        return False
    if (isinstance(a["id"], str) and a["id"] == "") != (isinstance(b["id"], str) and b["id"] == ""):
        return False
    conds = []
    if not (isinstance(a["id"], str) and a["id"] == ""):
        conds.append(a["id"] == b["id"])
    conds.append(a["order"] == b["order"])
    sa, sb = a["sym"], b["sym"]
    conds.append(Or(And(_sym_is(sa, "$"), _sym_is(sb, "$")), And(_sym_is(sa, "<"), _sym_is(sb, ">")),
                    And(_sym_is(sa, ">"), _sym_is(sb, "<"))))
    return And(*conds)


def state_text(info, mv, c):
    """public-API text (prefix, '[..]') for a descriptor state under model values mv"""
    if isinstance(info["sym"], str) and info["sym"] == "":
        return "", "[]"
    sym = info["sym"]
    if isinstance(sym, SymChar):
        sym = chr(c.eval_in(mv, SymInt(sym.e)))
    idv = info["id"]
    ids = "" if isinstance(idv, str) else str(c.eval_in(mv, idv))
    order = c.eval_in(mv, info["order"])
    pre = PREFIX_FOR_ORDER[int(order)]
    w = ""
    if info.get("transitions") is not None:
        w = "|" + " ".join(repr(float(c.eval_in(mv, t))) for t in info["transitions"]) + "|"
    elif core.is_sym(info.get("weight")):
        w = "|" + repr(float(c.eval_in(mv, info["weight"]))) + "|"
    return pre, f"[{sym}{ids}{w}]"


def vars_in_path_condition(c):
    """names of the symbolic variables that occur in a solver-decided branch of this path
    (bounds of fresh variables and assumptions are not decisions)"""
    names = set()

    def walk(e, seen):
        if e.get_id() in seen:
            return
        seen.add(e.get_id())
        if z3.is_const(e) and e.decl().kind() == z3.Z3_OP_UNINTERPRETED:
            names.add(str(e))
        for ch in e.children():
            walk(ch, seen)

    seen = set()
    for a in c.pc_decisions:
        walk(a, seen)
    return names


def explore_case(res, fn, tier, max_paths=200000, budget_s=None, on_path=None, query_timeout_ms=10000):
    """Run core.explore and fold the outcome into a CaseResult."""
    deadline = None if budget_s is None else time.time() + budget_s
    from symx import loader as _loader

    inner = fn

    def fn(c):
        _loader.restore_state()  # every path starts from the package's import-time state (a fresh process)
        return inner(c)

    stats, results, cexs, complete = core.explore(
        fn, max_paths=max_paths, deadline=deadline, on_path=on_path, query_timeout_ms=query_timeout_ms, max_cex=200
    )
    if res.stats is None:
        res.stats = stats
    else:
        res.stats.merge(stats)
    res.complete = res.complete and complete
    return stats, cexs, complete


def collector(res, prop, max_samples=2):
    """on_path callback: turns solver counter-examples into Candidates (via the callable
    the harness attached to the obligation) and keeps a few sample paths."""

    def on_path(pr, c):
        if pr.status == "cex":
            d = pr.cex.detail
            mv = pr.cex.model_values
            if callable(d):
                sig, what, replay = d(mv, c)
            else:
                sig, what, replay = (str(pr.cex.label), str(pr.cex.label), {"model": mv})
            res.candidates.append(Candidate(prop, sig, what, replay))
        elif pr.status in ("ok", "exc") and len(res.samples) < max_samples and pr.nsym > 0:
            try:
                mv = c.model_values()
            except BaseException:
                mv = {}
            res.samples.append({
                "status": pr.status if pr.status == "ok" else f"exception {type(pr.exc).__name__}",
                "decisions": [(d[0], d[2] if d[0] in ("b", "p") else d[2][d[3]]) for d in pr.decisions][:40],
                "path_condition (solver-decided branch conditions, first 12)": [str(e).replace("\n", " ")[:160] for e in c.pc_decisions[:12]],
                "one_model_of_the_path_condition": {k: v for k, v in list(mv.items())[:24]},
                "trace": [list(map(str, t)) for t in pr.trace[:24]],
                "result": str(pr.value)[:300],
            })

    return on_path


def symstr_concretise(s):
    from symx import symstr

    return symstr.concretise(s)
