"""C12 — mixture bookkeeping: percentages sum to 100, masses consistent, written values kept."""
from __future__ import annotations

import itertools
import sys

import z3

from symx import core
from symx.core import And, Or, Not, Implies, SymReal
from symx.symstr import SymStr, Num

from .common import collector, explore_case

PROPERTY = "C12"
FUNCTIONS = [
    "gbigsmiles.system._estimate_system_molecular_weight",
    "gbigsmiles.mixture.Mixture.__init__ / relative_mass.setter / system_mass.setter / generate_string",
    "gbigsmiles.system.System.__init__ / generable / system_mass / generate_string (concrete component chemistry)",
]
EXPLANATION = (
    "For every assignment of {absolute, percent, unspecified} to k components (k<=4 quick, <=5 thorough), with and without a "
    "caller-supplied system mass, the written numbers are solver variables (masses in [1e-3,1e9], percentages in (0,100]). The real "
    "Mixture constructor parses them from symbolic text ('.|<numeral>|', '.|<numeral>%|'), the real _estimate_system_molecular_weight and the "
    "linked setters run on them. On every path: (soundness) if the code reports generable, z3 proves that every component has percentage, "
    "absolute mass and the one system mass, that absolute*100 == percentage*system exactly, that the sums agree with the system mass within "
    "the code's own 1e-6 tolerance (x10), that written percentages are kept exactly and written masses within 2e-6, that the caller's system mass "
    "is used, and that the linear specification has a unique solution (an under-determined system is never reported generable); (completeness) if "
    "the code raises or reports not generable, z3 proves the inputs are not one of the documented determined forms with consistent totals; "
    "(round trip) printing each component's mixture and parsing it again yields the same mass term."
)
ASSUMPTIONS = [
    "python floats as reals; the tolerance band of the code (1e-6) is respected by asserting sums within 1e-5",
    "numeral atoms: float(repr(x)) == x; a printed number contains no '.|', '%', '|'",
    "component objects are stand-ins carrying only a .mixture attribute for the estimate function (System.__init__ is exercised separately on concrete chemistry)",
    "documented determined forms (README 'System object syntax'): all absolute; all but one in percent plus one absolute; percentages plus a caller-supplied system mass",
]
OUTSIDE = ["k > 5 components", "determined forms README does not document (e.g. two absolute masses and one percentage) - a 'not generable' answer there is recorded as a note, not a violation",
           "zero masses / zero percentages (bounds are strictly positive)"]
REQUIRED_LABELS = ["sound:abs*100==pct*S", "sound:unique solution", "complete:documented form is generable", "roundtrip:mixture text keeps the mass"]

ABS, PCT, UN = "abs", "pct", "un"


def bounds(tier):
    return {"components": 4 if tier == "quick" else 5, "masses": "[1e-3, 1e9]", "percentages": "(0, 100]", "system mass": "absent or [1e-3, 1e9]"}


def cases(tier):
    kmax = 4 if tier == "quick" else 5
    out = []
    for k in range(1, kmax + 1):
        for kinds in itertools.product((ABS, PCT, UN), repeat=k):
            for s0 in (False, True):
                out.append({"name": f"k{k}/{'-'.join(kinds)}/{'S0' if s0 else 'noS0'}", "kinds": list(kinds), "s0": s0})
    out.append({"name": "system-text/roundtrip", "kinds": None, "s0": False})
    out.append({"name": "system-text/earlier-systems", "kinds": None, "s0": False, "history": True})
    return out


class _Mol:
    def __init__(self, mixture):
        self.mixture = mixture


def run_case(case, g, tier, res):
    on_path = collector(res, PROPERTY)
    if case["kinds"] is None and case.get("history"):
        return _run_system_history(case, g, tier, res, on_path)
    if case["kinds"] is None:
        return _run_system_text(case, g, tier, res, on_path)
    kinds = case["kinds"]
    k = len(kinds)
    sysmod = sys.modules["gbigsmiles.system"]

    def h(c):
        vals = []
        mols = []
        for i, kd in enumerate(kinds):
            if kd == ABS:
                v = c.fresh_real(f"A{i}", 1e-3, 1e9)
                mols.append(_Mol(g.Mixture(SymStr.of(".|", Num(v, "float"), "|"))))
            elif kd == PCT:
                v = c.fresh_real(f"P{i}", 0, 100, lo_strict=True)
                mols.append(_Mol(g.Mixture(SymStr.of(".|", Num(v, "float"), "%|"))))
            else:
                v = None
                mols.append(_Mol(None))
            vals.append(v)
        S0 = c.fresh_real("S0", 1e-3, 1e9) if case["s0"] else None

        def detail(label):
            def build(mv, c):
                texts = []
                for kd, v in zip(kinds, vals):
                    if kd == ABS:
                        texts.append(f".|{float(c.eval_in(mv, v))!r}|")
                    elif kd == PCT:
                        texts.append(f".|{float(c.eval_in(mv, v))!r}%|")
                    else:
                        texts.append(None)
                s0 = None if S0 is None else float(c.eval_in(mv, S0))
                return (f"C12:{label}", f"{label}: components {texts}, system mass {s0}",
                        {"kind": "estimate", "texts": texts, "s0": s0, "label": label})
            return build

        try:
            ok = sysmod._estimate_system_molecular_weight(mols, S0)
            outcome = "generable" if ok else "not generable"
        except (RuntimeError, ZeroDivisionError, ValueError) as e:
            outcome = f"raised {type(e).__name__}"
            ok = None
        # ----- written numbers
        A = {i: v for i, (kd, v) in enumerate(zip(kinds, vals)) if kd == ABS}
        P = {i: v for i, (kd, v) in enumerate(zip(kinds, vals)) if kd == PCT}
        nA, nP, nU = len(A), len(P), kinds.count(UN)
        sumP = sum(P.values(), 0.0) if P else 0.0
        sumA = sum(A.values(), 0.0) if A else 0.0
        if ok:
            mix = [m.mixture for m in mols]
            c.prove(all(m is not None for m in mix), "sound:every component has a mixture", detail("generable although a component has no specification"))
            c.prove(all(m.relative_mass is not None and m.absolute_mass is not None and m.system_mass is not None for m in mix),
                    "sound:every component has percentage, mass and system mass", detail("generable with a missing number"))
            S = mix[0].system_mass
            for i, m in enumerate(mix):
                c.prove(m.system_mass == S, "sound:one system mass", detail("components disagree on the system mass"))
                c.prove(m.absolute_mass * 100 == m.relative_mass * S, "sound:abs*100==pct*S", detail("absolute mass is not that percentage of the system mass"))
                c.prove(And(m.relative_mass >= 0, m.relative_mass <= 100 + 1e-3, m.absolute_mass >= 0), "sound:ranges", detail("percentage outside 0-100 or negative mass"))
                if i in P:
                    c.prove(m.relative_mass == P[i], "sound:written percentage kept", detail("a written percentage was changed"))
                if i in A:
                    c.prove(abs(m.absolute_mass - A[i]) <= 2e-6, "sound:written mass kept", detail("a written absolute mass was changed"))
            if S0 is not None:
                c.prove(S == S0, "sound:caller's system mass used", detail("system mass differs from the caller's value"))
            tp = sum((m.relative_mass for m in mix), 0.0)
            ta = sum((m.absolute_mass for m in mix), 0.0)
            # the code tolerates 1e-6 on percentages and 1e-6 on masses; either form of the total must hold within 10x that
            c.prove(Or(abs(ta - S) <= 1e-5, abs(tp - 100) <= 1e-3), "sound:totals consistent", detail("percentages do not sum to 100 / masses do not sum to the system mass"))
            # the specification has a unique solution for these written numbers (else: under-determined yet generable)
            sol = []
            for tag in ("x", "y"):
                Sv = c.fresh_real(f"spec_S_{tag}", 0, None, lo_strict=True)
                av = [c.fresh_real(f"spec_a{i}_{tag}", 0) for i in range(k)]
                pv = [c.fresh_real(f"spec_p{i}_{tag}", 0, 100) for i in range(k)]
                cons = [sum(pv, 0.0) == 100]
                for i in range(k):
                    cons.append(av[i] * 100 == pv[i] * Sv)
                    if i in A:
                        cons.append(av[i] == A[i])
                    if i in P:
                        cons.append(pv[i] == P[i])
                if S0 is not None:
                    cons.append(Sv == S0)
                sol.append((Sv, av, pv, And(*cons)))
            same = And(sol[0][0] == sol[1][0], *[sol[0][1][i] == sol[1][1][i] for i in range(k)], *[sol[0][2][i] == sol[1][2][i] for i in range(k)])
            c.prove(Implies(And(sol[0][3], sol[1][3]), same), "sound:unique solution", detail("an under-determined system is reported generable"))
        if P and outcome in ("generable", "not generable"):
            # written percentages above 100 % are an error, not a reason to be merely 'not generable'
            c.prove(sumP <= 100 + 1e-3, "over-100 % specification is rejected", detail(f"percentages above 100 % are answered with '{outcome}' instead of an error"))
        if not ok:
            # documented determined forms with consistent totals must be generable
            form = False
            if nU == 0 and nP == 0 and S0 is None:
                form = True  # all absolute
            elif nU == 0 and nP == 0 and S0 is not None:
                form = S0 == sumA
            elif nP == k - 1 and nA == 1:
                f = sumP < 100
                if S0 is not None:
                    ia = list(A)[0]
                    f = And(f, A[ia] * 100 == (100 - sumP) * S0)
                form = f
            elif nP == k - 1 and nU == 1 and S0 is not None:
                form = sumP <= 100
            elif nP == k and S0 is not None:
                form = sumP == 100
            c.prove(Not(form), "complete:documented form is generable", detail(f"a documented, consistent specification is answered with '{outcome}'"))
        return outcome

    explore_case(res, h, tier, on_path=on_path)

    # round trip of the mixture text itself
    def h2(c):
        pct = c.fresh_bool("is_pct")
        if pct:
            v = c.fresh_real("P", 0, 100)
            m = g.Mixture(SymStr.of(".|", Num(v, "float"), "%|"))
        else:
            v = c.fresh_real("A", 0, 1e9)
            m = g.Mixture(SymStr.of(".|", Num(v, "float"), "|"))
        s = m.generate_string(True)
        m2 = g.Mixture(s)

        def build(mv, c):
            val = float(c.eval_in(mv, v))
            t = f".|{val!r}%|" if pct else f".|{val!r}|"
            return ("C12:roundtrip", f"Mixture({t!r}) printed and parsed again changes its mass", {"kind": "roundtrip", "text": t})

        if pct:
            c.prove(And(m2.relative_mass == v, m2.absolute_mass is None), "roundtrip:mixture text keeps the mass", build)
        else:
            c.prove(And(m2.absolute_mass == v, m2.relative_mass is None), "roundtrip:mixture text keeps the mass", build)
        c.prove(m2.generate_string(True) == s, "roundtrip:fixed point", build)
        c.prove(m.generate_string(False) == ".", "roundtrip:erasure", build)
        return "ok"

    if case["name"].startswith("k1/abs/noS0"):
        explore_case(res, h2, tier, on_path=on_path)


def _run_system_text(case, g, tier, res, on_path):
    """System(text) -> str -> System on concrete component chemistry with numeral holes."""
    templates = [
        ("C", ABS, "CC", ABS),
        ("C", PCT, "CC", ABS),
        ("C", ABS, "CC", PCT),
        ("C", PCT, "CC", UN),
    ]

    def h(c):
        ti = c.fresh_int("template", 0, len(templates) - 1).__index__()
        a, ka, b, kb = templates[ti]
        parts = []
        vals = []
        for smi, kd in ((a, ka), (b, kb)):
            parts.append(smi)
            if kd == ABS:
                v = c.fresh_real("A", 1e-3, 1e9)
                parts += [".|", Num(v, "float"), "|"]
            elif kd == PCT:
                v = c.fresh_real("P", 0, 100, lo_strict=True)
                c.assume(v < 100)
                parts += [".|", Num(v, "float"), "%|"]
            else:
                v = None
            vals.append((kd, v))
        text = SymStr.of(*parts)

        def build(mv, c):
            out = ""
            for (smi, _), (kd, v) in zip(((a, ka), (b, kb)), vals):
                out += smi
                if kd == ABS:
                    out += f".|{float(c.eval_in(mv, v))!r}|"
                elif kd == PCT:
                    out += f".|{float(c.eval_in(mv, v))!r}%|"
            return ("C12:system-roundtrip", f"System({out!r}) printed and parsed again changes a mass", {"kind": "system", "text": out})

        s1 = g.System(text)
        gen1 = s1.generable
        printed = s1.generate_string(True)
        s2 = g.System(printed)
        c.prove(s2.generable == gen1, "system roundtrip:generable kept", build)
        c.prove(s2.generate_string(True) == printed, "system roundtrip:fixed point", build)
        for m1, m2 in zip(s1._molecules, s2._molecules):
            if m1.mixture is None or m2.mixture is None:
                c.prove(m1.mixture is None and m2.mixture is None, "system roundtrip:masses kept", build)
                continue
            for attr in ("absolute_mass", "relative_mass"):
                x, y = getattr(m1.mixture, attr), getattr(m2.mixture, attr)
                if x is None or y is None:
                    c.prove(x is None and y is None or not gen1, "system roundtrip:masses kept", build)
                else:
                    c.prove(abs(x - y) * 1e6 <= abs(x) + 1, "system roundtrip:masses kept", build)
        return str(gen1)

    explore_case(res, h, tier, on_path=on_path)


def _run_system_history(case, g, tier, res, on_path):
    """Systems built one after the other from the same component text but with other caller-supplied masses (or none): each is
    resolved from its own inputs only"""

    def h(c):
        P = c.fresh_real("P", 0, 100, lo_strict=True)
        c.assume(P < 100)
        S1 = c.fresh_real("S1", 1e-3, 1e9)
        S2 = c.fresh_real("S2", 1e-3, 1e9)
        text = SymStr.of("C.|", Num(P, "float"), "%|CC")
        order = c.fresh_int("order", 0, 1).__index__()  # 0: S1, S2, none   1: S1, none, S2

        def build(what):
            def b(mv, c):
                pv, s1, s2 = (float(c.eval_in(mv, x)) for x in (P, S1, S2))
                return (f"C12:system-history:{what}", f"System('C.|{pv!r}%|CC') built with system masses {[s1, s2, None] if order == 0 else [s1, None, s2]} in turn: {what}",
                        {"kind": "system-history", "P": pv, "S1": s1, "S2": s2, "order": order, "what": what})
            return b

        g.System(text, S1)
        for S in ((S2, None) if order == 0 else (None, S2)):
            try:
                sysm = g.System(text, S) if S is not None else g.System(text)
            except Exception as e:
                core.reraise_if_harness(e)
                c.prove(False, "history: a system is resolved from its own inputs", build(f"a later system (mass {'given' if S is not None else 'not given'}) is rejected ({type(e).__name__})"))
                return "raised"
            if S is None:
                c.prove(sysm.generable is False, "history: a system is resolved from its own inputs", build("an under-determined system reports generable after an earlier system with the same text"))
            else:
                m0, m1 = sysm._molecules[0].mixture, sysm._molecules[1].mixture
                ok = And(sysm.generable, m0.absolute_mass * 100 == P * S, m1.absolute_mass * 100 == (100 - P) * S, m0.relative_mass == P)
                c.prove(ok, "history: a system is resolved from its own inputs", build("a later system does not get the masses of its own system mass"))
        return "ok"

    explore_case(res, h, tier, on_path=on_path)


# ---------------------------------------------------------------------------


def replay(rp, gb):
    if rp["kind"] == "system-history":
        text = f"C.|{rp['P']!r}%|CC"
        seq = [rp["S1"], rp["S2"], None] if rp["order"] == 0 else [rp["S1"], None, rp["S2"]]
        bad = []
        for k, S in enumerate(seq):
            try:
                sysm = gb.System(text, S) if S is not None else gb.System(text)
            except Exception as e:
                bad.append(f"system {k} rejected: {type(e).__name__}: {e}")
                continue
            if S is None:
                if sysm.generable is not False:
                    bad.append(f"system {k} (no mass) reports generable")
            else:
                m0 = sysm._molecules[0].mixture
                if not sysm.generable or abs(m0.absolute_mass - rp["P"] / 100 * S) > 1e-6 * max(1.0, S):
                    bad.append(f"system {k}: generable={sysm.generable} absolute={m0.absolute_mass} expected {rp['P'] / 100 * S}")
        return bool(bad), f"{bad}"
    from gbigsmiles.system import _estimate_system_molecular_weight

    if rp["kind"] == "estimate":
        mols = [_Mol(None if t is None else gb.Mixture(t)) for t in rp["texts"]]
        written = [None if t is None else float(t.strip(".|%")) for t in rp["texts"]]
        kinds = [UN if t is None else (PCT if "%" in t else ABS) for t in rp["texts"]]
        try:
            ok = _estimate_system_molecular_weight(mols, rp["s0"])
            outcome = "generable" if ok else "not generable"
        except Exception as e:
            ok, outcome = None, f"raised {type(e).__name__}"
        k = len(kinds)
        if ok and "above 100 %" in rp["label"]:
            sumP0 = sum(w for w, kd in zip(written, kinds) if kd == PCT)
            return sumP0 > 100 + 1e-3, f"outcome={outcome} for written percentages summing to {sumP0}"
        if ok:
            bad = []
            mix = [m.mixture for m in mols]
            if any(m is None or m.relative_mass is None or m.absolute_mass is None or m.system_mass is None for m in mix):
                return True, "generable with missing numbers"
            S = mix[0].system_mass
            for i, m in enumerate(mix):
                if abs(m.system_mass - S) > 1e-9 * max(1, S):
                    bad.append("system mass differs")
                if abs(m.absolute_mass * 100 - m.relative_mass * S) > 1e-7 * max(1.0, abs(m.relative_mass * S)):
                    bad.append("abs*100 != pct*S")
                if kinds[i] == PCT and m.relative_mass != written[i]:
                    bad.append("written pct changed")
                if kinds[i] == ABS and abs(m.absolute_mass - written[i]) > 2e-6 * max(1.0, written[i] * 1e-3):
                    bad.append("written mass changed")
                if m.relative_mass < 0 or m.relative_mass > 100 + 1e-3 or m.absolute_mass < 0:
                    bad.append("range")
            if rp["s0"] is not None and abs(S - rp["s0"]) > 1e-9 * S:
                bad.append("caller's system mass not used")
            if abs(sum(m.absolute_mass for m in mix) - S) > 1e-5 + 1e-9 * S and abs(sum(m.relative_mass for m in mix) - 100) > 1e-3 + 1e-9:
                bad.append("totals inconsistent")
            # determinedness: enough information?
            nA, nP = kinds.count(ABS), kinds.count(PCT)
            determined = (rp["s0"] is not None or nA >= 1) and (nP >= k - 1 or (nA + nP == k and (nA == k or True)))
            pct_known = nP >= k - 1 or nA == k or (rp["s0"] is not None and nA + nP == k) or (nA + nP == k)
            sys_known = rp["s0"] is not None or nA >= 1
            if not (pct_known and sys_known):
                bad.append("under-determined yet generable")
            return bool(bad), f"outcome={outcome} problems={bad}"
        # not generable / raised: documented consistent form?
        nA, nP, nU = kinds.count(ABS), kinds.count(PCT), kinds.count(UN)
        sumP = sum(w for w, kd in zip(written, kinds) if kd == PCT)
        sumA = sum(w for w, kd in zip(written, kinds) if kd == ABS)
        s0 = rp["s0"]
        if "above 100 %" in rp["label"]:
            return (ok is not None) and sumP > 100 + 1e-3, f"outcome={outcome} for written percentages summing to {sumP}"
        form = False
        if nU == 0 and nP == 0 and s0 is None:
            form = True
        elif nU == 0 and nP == 0:
            form = abs(s0 - sumA) <= 1e-9 * s0
        elif nP == k - 1 and nA == 1:
            form = sumP < 100 - 1e-9
            if s0 is not None:
                a = [w for w, kd in zip(written, kinds) if kd == ABS][0]
                form = form and abs(a * 100 - (100 - sumP) * s0) <= 1e-9 * a * 100
        elif nP == k - 1 and nU == 1 and s0 is not None:
            form = sumP <= 100
        elif nP == k and s0 is not None:
            form = abs(sumP - 100) <= 1e-12
        return bool(form), f"outcome={outcome}; documented consistent form={form}"
    if rp["kind"] == "roundtrip":
        m = gb.Mixture(rp["text"])
        m2 = gb.Mixture(str(m))
        bad = (m.absolute_mass != m2.absolute_mass) or (m.relative_mass != m2.relative_mass) or str(m2) != str(m) or m.generate_string(False) != "."
        return bad, f"{rp['text']} -> {m} -> {m2}"
    if rp["kind"] == "system":
        s1 = gb.System(rp["text"])
        s2 = gb.System(str(s1))
        bad = str(s2) != str(s1) or s1.generable != s2.generable
        for m1, m2 in zip(s1._molecules, s2._molecules):
            for attr in ("absolute_mass", "relative_mass"):
                x = None if m1.mixture is None else getattr(m1.mixture, attr)
                y = None if m2.mixture is None else getattr(m2.mixture, attr)
                if (x is None) != (y is None) and s1.generable:
                    bad = True
                elif x is not None and y is not None and abs(x - y) * 1e6 > abs(x) + 1:
                    bad = True
        return bad, f"{rp['text']} -> {s1} -> {s2}"
    return False, "unknown"
