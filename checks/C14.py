"""C14 — generated ensembles have the declared composition by mass."""
from __future__ import annotations

import sys

from symx import core
from symx.core import And, Or, Not
from symx.rng import SymRng

from .common import collector, explore_case
from .C13 import FakeMolGen, TEXT

PROPERTY = "C14"
FUNCTIONS = ["gbigsmiles.system.System.generator (component pick)", "gbigsmiles.system.System.generate (component pick)"]
EXPLANATION = (
    "The probability vector p that System.generator / System.generate hand to rng.choice is captured as terms in the declared mass fractions "
    "f_i (solver variables) while each component's molecules have mass mbar_i (solver variables, the components' mean molecular masses). By the "
    "renewal-reward theorem (assumed) the long-run mass share of component i is p_i mbar_i / sum_j p_j mbar_j; the property holds iff for all f, mbar: "
    "p_i mbar_i sum_j f_j == f_i sum_j p_j mbar_j. One polynomial query per component and component count. A counter-example is replayed by "
    "generating a real ensemble with the plain package (seeded) and comparing measured and declared shares."
)
ASSUMPTIONS = ["renewal-reward limit theorem: with i.i.d. picks of law p and mean masses mbar the mass share of i converges to p_i mbar_i / sum p_j mbar_j",
               "python floats as reals", "each component's molecular mass is represented by its mean"]
OUTSIDE = ["finite-size fluctuations and the last, over-shooting molecule", "more than 4 components"]
REQUIRED_LABELS = ["mass share equals declared fraction"]


def bounds(tier):
    return {"components": "2..3 (quick), 2..4 (thorough)", "fractions": "[0,100], sum 100", "mean masses": "[1, 1e5]"}


T4 = "C.|25%|CC.|25%|O.|25%|N.|100|"


def cases(tier):
    ks = (2, 3) if tier == "quick" else (2, 3, 4)
    out = []
    for k in ks:
        for entry in ("generator", "generate"):
            out.append({"name": f"{entry}/k{k}", "k": k, "entry": entry})
    for entry in ("generator", "generate"):
        # two grades of one species: components whose plain notation is the same text
        out.append({"name": f"{entry}/k2-same-species", "k": 2, "entry": entry, "text": "C.|50%|C.|100|"})
    # the same System object used again: a later ensemble / single generation follows the law of the first
    for first in ("generator", "generate"):
        for second in ("generator", "generate"):
            out.append({"name": f"second-use/{first}-then-{second}", "k": 3, "kind": "second-use", "first": first, "second": second})
    return out


SECOND_TEXT = "C.|50%|CC.|30%|CCC.|100|"


def _run_second_use(case, g, tier, res, on_path, System):
    def h(c):
        system = g.System(SECOND_TEXT)
        called = []

        def stub(i):
            def gen(prefix=None, rng=None, **_more):
                if len(called) >= 6:
                    raise core.emulated(RuntimeError("unwinding bound: two molecules are asked for, more than 6 were generated"))
                called.append(i)
                return FakeMolGen(i, 0, 1e6, True)  # heavier than the system: one molecule ends an ensemble
            return gen

        for i, mol in enumerate(system._molecules):
            mol.generate = stub(i)
        laws = []
        for use, entry in enumerate((case["first"], case["second"])):
            cap = []
            rng = SymRng(on_choice=lambda rec, c, cap=cap: cap.append(rec))
            n0 = len(called)
            if entry == "generator":
                System.generator.fget.__defaults__ = (rng,)
                next(iter(system.generator))
            else:
                system.generate(rng=rng)
            us = [v for (_, v) in rng.other_calls]
            if len(called) != n0 + 1 or len(cap) + len(us) != 1:
                raise core.Unsupported(f"component pick with {len(cap)} choice calls and {len(us)} other draws")
            laws.append((cap[0].p if cap else None, us[0] if us else None, called[-1], len(cap[0].items) if cap else None))

        def build(mv, c):
            return ("C14:second-use:a later use of the same system follows another pick law than the first",
                    f"System({SECOND_TEXT!r}): {case['first']} then {case['second']} on the same object: the second component pick follows another law than the first",
                    {"kind": "second-use", "first": case["first"], "second": case["second"], "k": 3})

        (p1, u1, i1, n1), (p2, u2, i2, n2) = laws
        # rng.choice without p is the uniform law
        if p1 is None and n1 is not None:
            p1 = [1.0 / n1] * n1
        if p2 is None and n2 is not None:
            p2 = [1.0 / n2] * n2
        if p1 is not None and p2 is not None:
            same = n1 == n2 and len(p1) == len(p2) and And(*[abs(a - b) < 1e-12 for a, b in zip(p1, p2)])
            c.prove(same, "a later use of the same system follows the pick law of the first", build)
        elif u1 is not None and u2 is not None:
            c.assume(u1 == u2)  # the same uniform draw ...
            c.prove(i1 == i2, "a later use of the same system follows the pick law of the first", build)  # ... picks the same component
        else:
            raise core.Unsupported("the two uses pick their component in different ways")
        return (i1, i2)

    explore_case(res, h, tier, on_path=on_path, budget_s=300)


def run_case(case, g, tier, res):
    on_path = collector(res, PROPERTY)
    sysmod = sys.modules["gbigsmiles.system"]
    System = sysmod.System
    k = case["k"]
    if case.get("kind") == "second-use":
        return _run_second_use(case, g, tier, res, on_path, System)

    def h(c):
        system = g.System(case.get("text") or (TEXT[k] if k in TEXT else T4))
        S = c.fresh_real("S", 1, 1e9)
        fr = [c.fresh_real(f"f{i}", 0, 100) for i in range(k - 1)]  # a declared share of exactly 0 % is allowed
        last = 100 - sum(fr, 0.0)
        c.assume(last >= 0)
        fr.append(last)
        mbar = [c.fresh_real(f"mbar{i}", 1, 1e5) for i in range(k)]
        for mol, f in zip(system._molecules, fr):
            mol.mixture._relative_mass = f
            mol.mixture._system_mass = S
            mol.mixture._absolute_mass = f / 100.0 * S
        called = []

        def stub(i):
            def gen(prefix=None, rng=None):
                if len(called) >= 6:
                    raise core.emulated(RuntimeError("unwinding bound: one molecule is asked for, more than 6 were generated"))
                called.append(i)
                return FakeMolGen(i, 0, mbar[i], True)
            return gen

        for i, mol in enumerate(system._molecules):
            mol.generate = stub(i)
        captured = []

        def on_choice(rec, c):
            captured.append(rec)

        rng = SymRng(on_choice=on_choice)
        if case["entry"] == "generator":
            System.generator.fget.__defaults__ = (rng,)
            c.assume(S <= 1)  # one molecule suffices: the pick law is the same at every step
            it = iter(system.generator)
            next(it)
        else:
            system.generate(rng=rng)
        sumf = sum(fr, 0.0)
        if not captured:
            # no rng.choice: the pick is computed from uniform draws (inverse-CDF sampling and the like).  Its law is the
            # measure of the set of draws u that lead to each component: on a path that returns component i the set of u
            # satisfying the path condition (fractions fixed) must not be longer than f_i / sum f by more than 10 points.
            # (If no path is too long the lengths are exactly f_i / sum f, because they add up to 1.)
            us = [v for (_, v) in rng.other_calls]
            if len(us) != 1 or len(called) != 1:
                raise core.Unsupported(f"component pick without rng.choice and with {len(us)} other draws")
            import z3

            i, u = called[0], us[0]
            uz = u.n.z3()
            u2 = z3.Real("u_other")
            A2 = z3.substitute(z3.And(*c.solver.assertions()), (uz, u2))
            too_long = z3.And(A2, (u2 - uz) * sumf.term() > fr[i].term() + z3.RealVal("1/10") * sumf.term())

            def buildm(mv, c):
                fv = [float(c.eval_in(mv, f)) for f in fr]
                return (f"C14:pick-law-other@System.{case['entry']}", f"component {i} is picked for a set of uniform draws longer than its declared share {fv[i]} of {fv} by more than 10 points",
                        {"kind": "share", "entry": case["entry"], "fractions": fv, "mbar": [float(c.eval_in(mv, m)) for m in mbar], "p": [], "k": k, "what": "measure", "component": i})

            c.prove(core.SymBool(z3.Not(too_long)), "pick law (measure of the uniform draw) is the mass fraction", buildm)
            p = [f / sumf for f in fr]
            rec = None
        else:
            rec = captured[0]
            p = rec.p
            if p is None:  # numpy: no p = uniform
                p = [1.0 / len(rec.items)] * len(rec.items)

        def build0(mv, c):
            fv = [float(c.eval_in(mv, f)) for f in fr]
            mv_ = [float(c.eval_in(mv, m)) for m in mbar]
            return (f"C14:pick-not-over-all-components@System.{case['entry']}", f"the component pick is not over all {k} declared components for declared mass fractions {fv}",
                    {"kind": "share", "entry": case["entry"], "fractions": fv, "mbar": mv_, "p": [], "k": k, "what": "components", "text": case.get("text")})

        c.prove(len(p) == k and (rec is None or [int(x) for x in rec.items] == list(range(k))), "pick is over all declared components", build0)
        denom = sum((p[j] * mbar[j] for j in range(k)), 0.0)
        # is it the known wrong law p_i = f_i / sum f ?
        known = And(*[p[i] * sumf == fr[i] for i in range(k)])

        def build(mv, c):
            fv = [float(c.eval_in(mv, f)) for f in fr]
            mv_ = [float(c.eval_in(mv, m)) for m in mbar]
            pv = [float(c.eval_in(mv, x)) for x in p]
            is_known = all(abs(pv[i] - fv[i] / sum(fv)) < 1e-9 for i in range(k))
            sig = "C14:pick-probability-equals-mass-fraction" if is_known else "C14:pick-law-other"
            return (sig + f"@System.{case['entry']}",
                    f"component pick p={pv} for declared mass fractions {fv} and mean masses {mv_}: long-run mass share differs from the declared fraction",
                    {"kind": "share", "entry": case["entry"], "fractions": fv, "mbar": mv_, "p": pv, "k": k})

        for i in range(k):
            c.prove(p[i] * mbar[i] * sumf == fr[i] * denom, "mass share equals declared fraction", build)
        return "ok"

    explore_case(res, h, tier, on_path=on_path, budget_s=600)


# ---------------------------------------------------------------------------


def replay(rp, gb):
    """Generate a real ensemble with the plain package: light and heavy components chosen so that their mean masses
    have the ratio of the counter-example's (clipped to what small alkanes offer); compare shares."""
    import numpy as np
    from gbigsmiles import core as gcore
    from gbigsmiles.system import System

    k = rp["k"]
    if rp.get("kind") == "second-use":
        # the same seed for the first and for the second use of one System object: the same law gives the same component
        diff = []
        for seed in range(200):
            system = gb.System(SECOND_TEXT)
            got = []
            for entry in (rp["first"], rp["second"]):
                rr = np.random.default_rng(seed)
                if entry == "generator":
                    System.generator.fget.__defaults__ = (rr,)
                    got.append(next(iter(system.generator)).smiles)
                else:
                    got.append(system.generate(rng=rr).smiles)
            if got[0] != got[1]:
                diff.append((seed, got))
        return bool(diff), f"{len(diff)} of 200 seeds give another component on the second use of the same System object: {diff[:3]}"
    f = rp["fractions"]
    # components: alkanes of increasing size, the mass ordering follows the counter-example's mbar ordering
    order = sorted(range(k), key=lambda i: rp["mbar"][i])
    sizes = [1, 8, 20, 40][:k]
    smiles = [None] * k
    for rank, i in enumerate(order):
        smiles[i] = "C" * sizes[rank]
    masses = [12.011 * len(s) for s in smiles]
    total = 40000.0
    # the component with the largest share carries the absolute mass (a share of exactly 0 % cannot: a mass of 0 is not a specification)
    jmax = max(range(k), key=lambda i: f[i])
    text = "".join(f"{s}.|{total * fi / 100.0!r}|" if i == jmax else f"{s}.|{fi!r}%|" for i, (s, fi) in enumerate(zip(smiles, f)))
    if rp.get("what") == "components" and rp.get("text"):
        # components of one species: the case's own text, the fractions written onto the parsed mixtures as in the harness
        system = gb.System(rp["text"])
        for mol, fi in zip(system._molecules, f):
            mol.mixture._relative_mass, mol.mixture._system_mass, mol.mixture._absolute_mass = fi, 1000.0, fi * 10.0
        seen = []

        class Rec0:
            def __init__(self):
                self.real = np.random.default_rng(5)

            def choice(self, a, size=None, replace=True, p=None, **kw):
                seen.append(len(range(a)) if isinstance(a, int) else len(list(a)))
                return self.real.choice(a, size=size, replace=replace, p=p, **kw)

            def __getattr__(self, n):
                return getattr(self.real, n)

        try:
            if rp["entry"] == "generator":
                System.generator.fget.__defaults__ = (Rec0(),)
                next(iter(system.generator))
            else:
                system.generate(rng=Rec0())
        except Exception as e:
            return True, f"raised {type(e).__name__}"
        return bool(seen) and seen[0] != k, f"system {rp['text']}: the component pick is over {seen[:1]} options for {k} declared components"
    system = gb.System(text)
    if rp.get("what") == "measure":
        # empirical pick frequencies of the plain package against the declared fractions (4000 single generations, seeded)
        rr = np.random.default_rng(2024)
        cnt = [0] * k
        for _ in range(4000):
            w = system.generate(rng=rr).weight
            cnt[min(range(k), key=lambda j: abs(masses[j] - w))] += 1
        freq = [100.0 * x / 4000 for x in cnt]
        i = rp["component"]
        return freq[i] > f[i] + 5.0, f"system {text}: component {i} is picked in {freq[i]:.1f} % of 4000 generations, declared {f[i]:.1f} % (all: {[round(x, 1) for x in freq]})"

    class Rec:
        def __init__(self, real):
            self.real, self.p = real, []

        def choice(self, a, size=None, replace=True, p=None, **kw):
            n_ = len(range(a)) if isinstance(a, int) else len(list(a))
            self.p.append([1.0 / n_] * n_ if p is None else [float(x) for x in p])
            return self.real.choice(a, size=size, replace=replace, p=p, **kw)

        def __getattr__(self, n):
            return getattr(self.real, n)

    rng = Rec(np.random.default_rng(12345))
    got = [0.0] * k
    n = 0
    if rp["entry"] == "generator":
        System.generator.fget.__defaults__ = (rng,)
        for m in system.generator:
            w = m.weight
            i = min(range(k), key=lambda j: abs(masses[j] - w))
            got[i] += w
            n += 1
    else:
        acc = 0.0
        while acc < total:
            m = system.generate(rng=rng)
            w = m.weight
            i = min(range(k), key=lambda j: abs(masses[j] - w))
            got[i] += w
            acc += w
            n += 1
    shares = [100 * x / sum(got) for x in got]
    # the law the real code handed to the generator, and the long-run share it implies for these components
    pk = [q for q in rng.p if q is not None and len(q) == k]
    if not pk and rp.get("what") != "components":
        return False, "no component pick observed"
    if rp.get("what") == "components":
        allp = [q for q in rng.p if q is not None]
        return bool(allp) and len(allp[0]) != k, f"system {text}: pick vector {allp[:1]} for {k} declared components; sampled ensemble shares {[round(s, 1) for s in shares]}"
    p0 = pk[0]
    den = sum(p0[j] * masses[j] for j in range(k))
    implied = [100 * p0[j] * masses[j] / den for j in range(k)]
    dev = max(abs(s - fi) for s, fi in zip(implied, f))
    return dev > 1e-6, (f"system {text}: pick law p={[round(x, 6) for x in p0]} with molecular masses {[round(x, 1) for x in masses]} implies long-run mass shares "
                        f"{[round(s, 3) for s in implied]} vs declared {[round(x, 3) for x in f]}; sampled ensemble of {n} molecules (seed 12345): {[round(s, 1) for s in shares]}")
