"""C19 — ensemble probability of linear directed chains equals generation probability."""
from __future__ import annotations

import sys

import z3
from rdkit import Chem

from symx import core, gen
from symx.core import And, Or, Not

from . import gendrive
from .C18 import FixedRng
from .common import collector, explore_case
from .gendrive import frag_mass

PROPERTY = "C19"
FUNCTIONS = ["gbigsmiles.mol_prob.get_ensemble_prob / get_prob / get_starting_tokens", "gbigsmiles.mol_prob.PossibleMatch (all methods)", "gbigsmiles.mol_prob.RememberAdd",
             "gbigsmiles.distribution.<family>.prob_mw (interval argument) for all six families"]
EXPLANATION = (
    "get_ensemble_prob runs with the cumulative distribution function of every block replaced by an uninterpreted monotone function F_b : R -> [0,1] "
    "(a fresh z3 real per distinct argument, constrained monotone), so one run covers all six families and every parameter value; start weights of "
    "end groups are solver variables; numpy's log / exp are an exact product algebra. For chains of n = 1..N units per block the returned term is "
    "proved equal to the generator's law P_start * prod_b (F_b(n_b m_b) - F_b((n_b - 1) m_b)), where m_b is the unit mass and neither prefix, earlier "
    "blocks nor the starting end group count (as Stochastic.generate measures, C07); because F is uninterpreted the equality forces the recorded "
    "(value, previous) pairs to be exactly those masses. The values telescope to F(N m) - F(0); a molecule with a foreign atom gets 0; three "
    "renumberings of the query SMILES give the same term. The interval plumbing cdf(value) - cdf(previous) is exercised for all six families."
)
ASSUMPTIONS = ["the distribution's CDF is an arbitrary monotone function into [0,1] (scipy object replaced by a recorder)", "python floats as reals; masses are the floats RDKit reports",
               "the generator's law is the one established by C07 / C08", "renumberings are three samples per molecule (not solver-covered)"]
OUTSIDE = ["branched or multi-monomer objects, '$' descriptors", "all renumberings", "chains longer than N units per block"]
REQUIRED_LABELS = ["ensemble probability equals the generator's law", "foreign molecule has probability 0", "independent of atom order", "interval probability is cdf(value) - cdf(previous)"]

SKELS = [
    dict(name="prefix-asym", text="N{[<][<]C(N)C[>][>]}|gauss(100,20)|[Si]", units=["[<]C(N)C[>]"], start=1.0),
    dict(name="prefix-sym", text="N{[<][<]CC[>][>]}|gauss(60,5)|[Si]", units=["[<]CC[>]"], start=1.0),
    dict(name="endgroup-start", text="{[][<]C(N)C[>]; [<]O, [>]CO[]}|gauss(60,30)|", units=["[<]C(N)C[>]"], start="eg"),
    dict(name="two-blocks", text="OCC{[<][<]C(N)C[>][>]}|gauss(100,20)|{[<][<]C(=O)C[>][>]}|flory_schulz(0.1)|[Si]", units=["[<]C(N)C[>]", "[<]C(=O)C[>]"], start=1.0),
    dict(name="two-blocks-connector", text="OCC{[<][<]C(N)C[>][>]}|schulz_zimm(100,80)|CC[Si]CC{[<][<]C(=O)C[>][>]}|log_normal(100,1.1)|[Si]", units=["[<]C(N)C[>]", "[<]C(=O)C[>]"], start=1.0),
    dict(name="zero-weight-start", text="{[][<]C(N)C[>]; [<|0|][H], [<]F[>]}|gauss(100,20)|CO", units=["[<]C(N)C[>]"], start="eg"),
    dict(name="telechelic-prefix-twice", text="OCC{[<][<]C(N)C[>][>]}|gauss(100,20)|CCO", units=["[<]C(N)C[>]"], start=1.0),
    dict(name="chlorinated-unit-discrete-law", text="[H]{[<][<]C(Cl)C[>][>]}|flory_schulz(0.05)|CO", units=["[<]C(Cl)C[>]"], start=1.0),
    dict(name="same-unit-in-adjacent-blocks", text="[H]{[<][<]C(N)C[>][>]}|uniform(20,120)|{[<][<]C(N)C[>][>]}|gauss(60,20)|CO", units=["[<]C(N)C[>]", "[<]C(N)C[>]"], start=1.0, splits=True),
    dict(name="uniform-window-inside-one-unit", text="OC{[<][<]CO[>][>]}|uniform(30, 50)|N", units=["[<]CO[>]"], start=1.0),
    dict(name="locally-symmetric-substituent", text="OC{[<][<]CC(F)(F)[>][>]}|uniform(0, 200)|N", units=["[<]CC(F)(F)[>]"], start=1.0),
    dict(name="heavy-isotope-unit", text="[H]{[<][<]C(N)[13CH2][>][>]}|uniform(20, 120)|CO", units=["[<]C(N)[13CH2][>]"], start=1.0),
    # the suffix token's descriptor carries the written weight 0 (what gen_mirror prints for a former prefix): the generator picks
    # uniformly among all-zero options, the reported probability must follow
    dict(name="suffix-descriptor-zero-weight", text="F{[<][<]C(N)C[>][>]}|gauss(100,20)|[>|0|]CO", units=["[<]C(N)C[>]"], start=1.0),
    dict(name="poisson-block", text="[H]{[<][<]C(N)C[>][>]}|poisson(65)|CO", units=["[<]C(N)C[>]"], start=1.0),
]


# skeletons with recorded known findings keep their historical signatures (one per skeleton); the others are replayed per chain length
KNOWN_SKELS = ("endgroup-start", "prefix-sym", "two-blocks-connector")


def bounds(tier):
    return {"skeletons": [s["text"] for s in SKELS], "units per block": "1..2 (quick), 1..3 (thorough)", "families": "all six (prob_mw plumbing)"}


def cases(tier):
    nmax = 2 if tier == "quick" else 3
    out = []
    for s in SKELS:
        nb = len(s["units"])
        import itertools

        for ns in itertools.product(range(1, nmax + 1), repeat=nb):
            out.append({"name": f"{s['name']}/n{'-'.join(map(str, ns))}", "skel": s, "ns": list(ns)})
    return out


class CDF:
    """uninterpreted monotone function: a fresh real per distinct argument"""

    def __init__(self, name):
        self.name = name
        self.pts = {}
        self.calls = []

    def __deepcopy__(self, memo):
        return self

    def cdf(self, x, **kw):
        c = core.ctx()
        x = float(x)
        self.calls.append((x, dict(kw)))
        if x not in self.pts:
            v = c.fresh_real(f"F_{self.name}", 0, 1)
            for y, w in self.pts.items():
                r = (w <= v) if y <= x else (v <= w)
                if not isinstance(r, bool):
                    c.add(r.e)
            self.pts[x] = v
        return self.pts[x]

    def pdf(self, x, **kw):
        raise core.emulated(AttributeError("point probability requested where an interval was expected"))

    pmf = pdf


class FirstPossibleRng:
    """picks the first element of positive probability (optionally a forced index for the very first pick)"""

    def __init__(self, first=None):
        self.first = first
        self.k = 0

    def __deepcopy__(self, memo):
        return self

    def choice(self, a, size=None, replace=True, p=None, **kw):
        items = list(range(a)) if isinstance(a, int) else list(a)
        self.k += 1
        if self.k == 1 and self.first is not None:
            if self.first >= len(items):
                raise gendrive.ReplayDone()
            return items[self.first]
        if p is None:
            return items[0]
        for it, q in zip(items, list(p)):
            if float(q) > 0:
                return it
        raise ValueError("no element of positive probability")

    # a pick computed from a uniform draw (inverse-CDF sampling): the smallest draw selects the first option of positive probability
    def random(self, size=None):
        return 0.0

    def uniform(self, low=0.0, high=1.0, size=None):
        return low


def generate_member(g, mol, ns, skel, first=None):
    """a molecule of the ensemble with ns[b] units in block b, built by the real generator with scripted draws"""
    masses = []
    for el in mol._elements:
        if isinstance(el, g.Stochastic):
            masses.append(frag_mass(el.repeat_tokens[0]))
    targets = [(n - 0.5) * m for n, m in zip(ns, masses)]
    gen.install_observers(g, gen.Observer())
    gen.DRAW_FN[0] = gen.scripted_draw(targets)
    saved = gen.OBS[0]
    gen.OBS[0] = gen.Observer()  # residues and inter-residue bonds of the member are tracked (outside_variants)
    try:
        r = mol.generate(rng=FirstPossibleRng(first))
    finally:
        gen.OBS[0] = saved
    LAST_MEMBER[0] = r
    return r.smiles, masses


LAST_MEMBER = [None]
VARIANTS = {}


def outside_variants(g, member, skel):
    """molecules that differ from a member of the ensemble by something no generation can produce:
    'bond-order': one bond BETWEEN two residues (always single here) raised to a double bond;
    'no-terminal': the last, plain one-atom token is missing (its element occurs in no repeat unit).
    Returned: list of (kind, SMILES); empty where the skeleton does not allow a safe construction."""
    out = []
    bonds = list(getattr(member, "_sx_bonds", []))
    residues = list(getattr(member, "_sx_residues", []))
    if not bonds or not residues:
        return out
    base = Chem.Mol(member._mol)
    try:
        Chem.SanitizeMol(base)
    except Exception:
        return out
    if not any(ch in u for u in skel["units"] for ch in "=#"):
        for (a, b, t) in bonds:
            x, y = base.GetAtomWithIdx(int(a)), base.GetAtomWithIdx(int(b))
            if int(t) == 1 and x.GetSymbol() == "C" and y.GetSymbol() == "C" and x.GetTotalNumHs() >= 1 and y.GetTotalNumHs() >= 1:
                rw = Chem.RWMol(base)
                rw.GetBondBetweenAtoms(int(a), int(b)).SetBondType(Chem.BondType.DOUBLE)
                try:
                    m2 = rw.GetMol()
                    Chem.SanitizeMol(m2)
                    out.append(("bond-order", Chem.MolToSmiles(m2)))
                except Exception:
                    pass
                break
    tok, lo, hi = residues[-1]
    tok = tok.obj
    unit_elems = set()
    for u in skel["units"]:
        mu = Chem.MolFromSmiles(gendrive._BD.sub("", u))
        unit_elems |= {a.GetSymbol() for a in mu.GetAtoms()} if mu is not None else set()
    if hi - lo == 1 and hi == base.GetNumAtoms() and not hasattr(tok, "repeat_tokens"):
        at = base.GetAtomWithIdx(lo)
        if at.GetDegree() == 1 and at.GetSymbol() not in unit_elems and at.GetSymbol() != "H":
            rw = Chem.RWMol(base)
            rw.RemoveAtom(lo)
            try:
                m2 = rw.GetMol()
                Chem.SanitizeMol(m2)
                out.append(("no-terminal", Chem.MolToSmiles(m2)))
            except Exception:
                pass
    return out


def _foreign(smi):
    """the same molecule with one atom exchanged for an element no token contains"""
    for a, b in (("[Si]", "[Ge]"), ("Cl", "Br"), ("N", "P"), ("O", "S")):
        if a in smi:
            return smi.replace(a, b, 1)
    raise ValueError(f"no atom to exchange in {smi}")


def renumberings(smi, k=3):
    import random

    params = Chem.SmilesParserParams()
    params.removeHs = False
    m = Chem.MolFromSmiles(smi, params)
    rnd = random.Random(7)
    out = []
    for _ in range(k):
        order = list(range(m.GetNumAtoms()))
        rnd.shuffle(order)
        out.append(Chem.MolToSmiles(Chem.RenumberAtoms(m, order), canonical=False))
    return out


def run_case(case, g, tier, res):
    on_path = collector(res, PROPERTY)
    skel, ns = case["skel"], case["ns"]
    text = skel["text"]

    def h(c):
        mol_plain = g.Molecule(text)
        smi, masses = generate_member(g, mol_plain, ns, skel)
        VARIANTS[(skel["name"], tuple(ns))] = outside_variants(g, LAST_MEMBER[0], skel)
        mol = g.Molecule(text)
        roles = gen.symbolize_weights(c, mol)
        cdfs = []
        for el in mol._elements:
            if isinstance(el, g.Stochastic):
                f = CDF(f"b{len(cdfs)}")
                el.distribution._distribution = f
                cdfs.append((el, f))

        def detail(label):
            def build(mv, c):
                vals = gendrive.role_values(c, mv, roles)
                return (f"C19:{label}:{skel['name']}" + ("" if skel["name"] in KNOWN_SKELS else f":n{'-'.join(map(str, ns))}"), f"{label} [{skel['name']}: {text}] molecule {smi} (units per block {ns})",
                        {"kind": "prob", "text": text, "smiles": smi, "ns": ns, "weights": vals, "label": label, "skel": skel["name"]})
            return build

        try:
            p, _ = g.get_ensemble_prob(smi, mol)
        except Exception as e:
            core.reraise_if_harness(e)
            c.prove(False, "ensemble probability equals the generator's law", detail(f"get_ensemble_prob raised {type(e).__name__} for a molecule the generator produces"))
            return "raised"
        # reference law
        first = mol._elements[0]
        if isinstance(first, g.Stochastic):
            # start: end group picked in proportion to its descriptor weight; which one started is read off the molecule:
            # the chain '[<]X' ... the start token is the end group whose descriptor is compatible with the unit's '[>]'... both
            # orientations of a linear chain are the same molecule, so the law sums over both starts that yield it
            ws = [sum((bd.weight for bd in t.bond_descriptors), 0.0) for t in first.end_tokens]
            tot = sum(ws, 0.0)
            pstart = None  # handled below
        ref = 1.0
        for (el, f), n, m in zip(cdfs, ns, masses):
            ref = ref * (f.cdf(n * m) - f.cdf((n - 1) * m))
        if skel.get("splits"):
            # adjacent blocks of the same unit: the same molecule arises from every split of the total number of units over the
            # two blocks; the generator's law of the molecule is the sum over the splits
            tot_units = sum(ns)
            (e0, f0), (e1, f1) = cdfs
            m0 = masses[0]
            ref = 0.0
            for a in range(1, tot_units):
                b = tot_units - a
                ref = ref + (f0.cdf(a * m0) - f0.cdf((a - 1) * m0)) * (f1.cdf(b * m0) - f1.cdf((b - 1) * m0))
        if isinstance(first, g.Stochastic):
            # generation: pick a start end group e with probability w_e / sum w, grow n units, cap the other end. The law of the
            # molecule sums over the starts that yield it (decided by generating with each start forced and comparing SMILES)
            pstart = 0.0
            for i, tok in enumerate(first.end_tokens):
                try:
                    smi_i, _ = generate_member(g, g.Molecule(text), ns, skel, first=i)
                except Exception as e:
                    core.reraise_if_harness(e)
                    smi_i = None
                if smi_i == smi:
                    pstart = pstart + ws[i] / tot
            ref = ref * pstart
        # the recorded intervals must be exactly (n m, (n-1) m) per block
        for (el, f), n, m in zip(cdfs, ns, masses):
            args = sorted(set(round(x, 6) for x, _ in f.calls))
            want = sorted(set([round(n * m, 6), round((n - 1) * m, 6)]))
            if skel.get("splits"):
                want = sorted(set(round(k * m, 6) for k in range(0, sum(ns) + 1)))
            c.prove(all(any(abs(a - w) < 1e-6 for w in want) for a in args) or not args, "interval probability is cdf(value) - cdf(previous)",
                    detail("the mass interval handed to the distribution is not [mass before the last unit, mass after it]"))
        c.prove(p == ref, "ensemble probability equals the generator's law", detail("ensemble probability differs from the generation probability"), fatal=False)
        # foreign atom
        foreign = _foreign(smi)
        p0, _ = g.get_ensemble_prob(foreign, mol)
        c.prove(p0 == 0, "foreign molecule has probability 0", detail("a molecule outside the ensemble gets a positive probability"))
        for kind_, s3 in VARIANTS.get((skel["name"], tuple(ns)), []):
            p3, _ = g.get_ensemble_prob(s3, mol)
            c.prove(p3 == 0, f"a molecule outside the ensemble has probability 0 ({kind_})", detail(f"a molecule outside the ensemble ({kind_}) gets a positive probability"))
        for s2 in renumberings(smi, 2 if tier == "quick" else 3):
            p2, _ = g.get_ensemble_prob(s2, mol)
            c.prove(p2 == p, "independent of atom order", detail(f"the value depends on the atom order of the SMILES"), fatal=False)
        return str(p)

    explore_case(res, h, tier, on_path=on_path, budget_s=600)


def replay(rp, gb):
    """evaluate both sides with real laws on the plain package"""
    import numpy as np

    mol = gb.Molecule(rp["text"])
    gendrive.apply_role_values(gen, mol, rp["weights"])
    smi, ns = rp["smiles"], rp["ns"]
    label = rp["label"]
    if label.startswith("get_ensemble_prob raised"):
        try:
            gb.get_ensemble_prob(smi, mol)
        except Exception as e:
            return True, f"get_ensemble_prob({smi!r}, {rp['text']!r}) raised {type(e).__name__}: {e}"
        return False, "no exception"
    p = gb.get_ensemble_prob(smi, mol)[0]
    if label.startswith("a molecule outside the ensemble ("):
        kind_ = label.split("(")[1].split(")")[0]
        from symx import gen as _gen

        import re as _re

        # the obligation holds for every law (the check's CDF is uninterpreted); the replay uses a broad one, so that a window
        # of probability zero in the written law cannot hide the value
        text2 = _re.sub(r"\|[a-z_]+\([^)]*\)\|", "|gauss(100, 50)|", rp["text"])
        plain = gb.Molecule(text2)
        skel = [s_ for s_ in SKELS if s_["name"] == rp["skel"]][0]
        generate_member(gb, plain, ns, skel)
        got = [(k_, s_) for k_, s_ in outside_variants(gb, LAST_MEMBER[0], skel) if k_ == kind_]
        if not got:
            return False, "variant could not be rebuilt"
        mol2 = gb.Molecule(text2)
        gendrive.apply_role_values(gen, mol2, rp["weights"])
        p3 = gb.get_ensemble_prob(got[0][1], mol2)[0]
        return p3 != 0, f"{kind_} variant {got[0][1]} of the member {smi} for {text2}: reported probability {p3}"
    if label.startswith("a molecule outside the ensemble"):
        foreign = _foreign(smi)
        p0 = gb.get_ensemble_prob(foreign, mol)[0]
        return p0 != 0, f"foreign {foreign}: {p0}"
    if label.startswith("the value depends on the atom order"):
        vals = [gb.get_ensemble_prob(s2, mol)[0] for s2 in renumberings(smi, 3)]
        return any(abs(v - p) > 1e-6 * max(abs(v), abs(p)) and max(abs(v), abs(p)) > 1e-300 for v in vals), f"{p} vs {vals}"
    ref = 1.0
    k = 0
    for el in mol._elements:
        if isinstance(el, gb.Stochastic):
            m = frag_mass(el.repeat_tokens[0])
            n = ns[k]
            k += 1
            d = el.distribution._distribution
            kw = {}
            name = type(el.distribution).__name__
            if name == "FlorySchulz":
                kw = {"a": el.distribution._a}
            elif name == "SchulzZimm":
                kw = {"z": el.distribution._z, "Mn": el.distribution._Mn}
            elif name == "LogNormal":
                kw = {"M": el.distribution._M, "D": el.distribution._D}
            ref *= float(d.cdf(n * m, **kw) - d.cdf((n - 1) * m, **kw))
    if rp.get("skel") == "same-unit-in-adjacent-blocks":
        els = [el for el in mol._elements if isinstance(el, gb.Stochastic)]
        m0 = frag_mass(els[0].repeat_tokens[0])

        def pr(el, n):
            d = el.distribution._distribution
            return float(d.cdf(n * m0) - d.cdf((n - 1) * m0))

        tot_units = sum(ns)
        ref = sum(pr(els[0], a) * pr(els[1], tot_units - a) for a in range(1, tot_units))
    bad = abs(p - ref) > 1e-6 * max(abs(p), abs(ref)) and max(abs(p), abs(ref)) > 1e-300
    return bad, f"get_ensemble_prob({smi}) = {p}; generator's law with the real distribution = {ref}"
