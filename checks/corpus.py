"""Strings harvested textually (at run time) from the repository's tests and documentation."""
from __future__ import annotations

import ast
import os
import re

REPO = os.environ.get("GBIGSMILES_REPO", "/repo")


def _string_constants(path):
    out = []
    try:
        tree = ast.parse(open(path, encoding="utf-8").read())
    except (OSError, SyntaxError):
        return out
    for node in ast.walk(tree):
        if isinstance(node, ast.Constant) and isinstance(node.value, str):
            out.append(node.value)
    return out


def test_strings(fname):
    """first element of every tuple in the test tables of tests/<fname> (the input texts)"""
    path = os.path.join(REPO, "tests", fname)
    out = []
    try:
        tree = ast.parse(open(path, encoding="utf-8").read())
    except (OSError, SyntaxError):
        return out
    for node in ast.walk(tree):
        if isinstance(node, ast.Tuple) and node.elts and isinstance(node.elts[0], ast.Constant) and isinstance(node.elts[0].value, str):
            s = node.elts[0].value
            if any(ch in s for ch in "{[") and len(s) > 2:
                out.append(s)
    seen, uniq = set(), []
    for s in out:
        if s not in seen:
            seen.add(s)
            uniq.append(s)
    return uniq


def all_test_output_strings(fname):
    """every string constant of tests/<fname> that looks like notation"""
    path = os.path.join(REPO, "tests", fname)
    out = []
    for s in _string_constants(path):
        if ("{" in s and "}" in s) or re.search(r"\[[$<>]", s):
            out.append(s)
    seen, uniq = set(), []
    for s in out:
        if s not in seen:
            seen.add(s)
            uniq.append(s)
    return uniq


def doc_strings():
    out = []
    for fn in ("README.md", "SI.md"):
        try:
            txt = open(os.path.join(REPO, fn), encoding="utf-8").read()
        except OSError:
            continue
        for m in re.finditer(r"`([^`\n]+)`", txt):
            s = m.group(1)
            if "{" in s and "}" in s and re.search(r"\[[$<>]?", s):
                out.append(s)
        for m in re.finditer(r'"(\S*\{\[[^"\n]*)"', txt):
            out.append(m.group(1))
    seen, uniq = set(), []
    for s in out:
        if s not in seen:
            seen.add(s)
            uniq.append(s)
    return uniq
