"""C01 — canonical notation round-trips: fixed point, same object, extensions erasable."""
from __future__ import annotations

import re
import sys

import z3

from symx import gen, core, symstr
from symx.core import And, Or, Not, SymInt, SymReal
from symx.symstr import SymStr, SymChar, Num, fresh_char

from . import corpus, gendrive
from .common import collector, explore_case

PROPERTY = "C01"
FUNCTIONS = [
    "gbigsmiles.bond.BondDescriptor.__init__ / generate_string", "gbigsmiles.token.SmilesToken.__init__ / generate_string",
    "gbigsmiles.stochastic.Stochastic.__init__ / generate_string", "gbigsmiles.molecule.Molecule.__init__ / generate_string",
    "gbigsmiles.system.System.__init__ / generate_string", "gbigsmiles.mixture.Mixture.__init__ / generate_string",
    "gbigsmiles.distribution.get_distribution, the six constructors and generate_string", "gbigsmiles.bond._create_compatible_bond_text",
]
EXPLANATION = (
    "Leaf level: a bond-descriptor text of up to L fully symbolic characters over '[ ] $ < 0 1 | . blank', a mixture text over '. | % 0 1 5 blank' "
    "and distribution texts with numeral parameters and symbolic blanks go through the real constructors. Structure level: every skeleton of the "
    "generation checks and the strings of tests / README / SI are turned into templates whose written numbers are numeral atoms with symbolic values "
    "(sign pattern kept); whitespace and number-format variants are generated one at a time: a blank at every token / segment boundary, each "
    "number as integer literal or with a trailing dot ('2.'). For every path on which the first parse is accepted z3 proves: s = print(obj) is accepted again; print(parse(s)) == s; the attribute "
    "trees (elements, tokens, atoms, descriptor symbol / id / weight / transitions / bond type / binding atom, terminals, distribution family and "
    "parameters, mixture masses) are equal; the extension-less print equals s with every |...| segment erased, contains no '|', and for a single "
    "molecule re-parses to the same tokens and descriptors."
)
ASSUMPTIONS = ["numeral atoms: float(repr(x)) == x, int(str(n)) == n, a printed number contains none of the characters the scanners search for "
               "(user-written forms such as '2.|' are reached through character holes instead)",
               "token chemistry is concrete per template; RDKit validates atoms concretely"]
OUTSIDE = ["texts longer than the leaf bounds / the templates", "more than one character hole at a time", "stereo characters",
           "'same molecule under an identically seeded generator' follows from equal attribute trees plus C10 and is not re-proved here"]
REQUIRED_LABELS = ["printed form is accepted again", "print is a fixed point", "same object after re-parse", "extension-less print is the erased canonical string"]

BD_ALPHA = "[]$<01|. "
MIX_ALPHA = ".|%015 "
NUM_FORMATS = ("int", "trailing-dot", "plain", "sci", "sci-short", "sci-upper")  # besides the canonical float print; the last three are spellings of a float


def bounds(tier):
    return {"descriptor text length": 6 if tier == "quick" else 8, "mixture text": "'.|' + body of <= 4 (quick) / 5 (thorough) symbolic characters over '. % 0 1 5 blank' + '|'",
            "templates": len(_templates(tier)), "variants": "one optional blank at a time at every token boundary / segment boundary; one number at a time written as integer literal or with a trailing dot"
            + (" (first 8 templates)" if tier == "quick" else "")}


# accepted texts that no generation skeleton has (they cannot all be generated): parse / print level only
EXTRA_TEMPLATES = [
    ("endgroup-without-descriptor", "{[][$]CC[$]; [H][]}|gauss(100, 10)|", "molecule"),
    ("endgroup-without-descriptor-before-terminal", "C{[$][$]CC[$]; O[$]}|gauss(100, 10)|C", "molecule"),
    ("endgroups-with-and-without-descriptor", "{[][<]CC[>]; [H], [<]O[]}|gauss(100, 10)|", "molecule"),
    ("no-repeat-unit", "{[$]; [$][H][$]}|gauss(100, 10)|", "molecule"),
    ("no-repeat-unit-empty-terminals", "{[]; [$][H][]}|gauss(100, 10)|", "molecule"),
    ("uniform-block-in-system", "CC{[>][<]CC[>][<]}|uniform(500, 600)|O.|50%|CCO.|50%|", "system"),
]


def _templates(tier):
    out = [(s["name"], s["text"], "molecule") for s in gendrive.SKELETONS]
    out += EXTRA_TEMPLATES
    for i, t in enumerate(corpus.test_strings("test_system.py")):
        out.append((f"test_system[{i}]", t, "system"))
    for i, t in enumerate(corpus.test_strings("test_stochastic.py")):
        out.append((f"test_stochastic[{i}]", t, "stochastic"))
    if tier == "thorough":
        for i, t in enumerate(corpus.test_strings("test_molecule.py")):
            out.append((f"test_molecule[{i}]", t, "system" if ".|" in t else "molecule"))
        for i, t in enumerate(corpus.doc_strings()):
            out.append((f"doc[{i}]", t, "system"))
    return out


def cases(tier):
    out = []
    lmax = 6 if tier == "quick" else 8
    for L in range(2, lmax + 1):
        out.append({"name": f"descriptor-text/L{L}", "kind": "bd", "L": L})
    for L in range(1, (4 if tier == "quick" else 5) + 1):
        out.append({"name": f"mixture-text/L{L}", "kind": "mix", "L": L})
    for fam in ("gauss", "flory_schulz", "schulz_zimm", "uniform", "log_normal", "poisson"):
        out.append({"name": f"distribution-text/{fam}", "kind": "dist", "fam": fam})
    tl = _templates(tier)
    for i, (name, text, level) in enumerate(tl):
        out.append({"name": f"template/{name}", "kind": "template", "text": text, "level": level, "hole": None})
    nh = 8 if tier == "quick" else len(tl)
    for i, (name, text, level) in enumerate(tl[:nh] if tier == "quick" else tl):
        for hp in hole_positions(text):
            out.append({"name": f"blank/{name}/@{hp}", "kind": "template", "text": text, "level": level, "hole": ("blank", hp)})
        for hp in bondsym_positions(text):
            for sym in ("=", "#"):
                out.append({"name": f"bondsym/{name}/@{hp}{sym}", "kind": "template", "text": text, "level": level, "hole": ("bondsym", hp, sym)})
        nnum = len([m for k, piece in enumerate(text.split("|")) if k % 2 == 1 for m in NUM_RE.finditer(piece)])
        for k in range(nnum):
            for fmt in NUM_FORMATS:
                out.append({"name": f"numfmt/{name}/#{k}/{fmt}", "kind": "template", "text": text, "level": level, "hole": ("numfmt", k, fmt)})
    return out


# ---------------------------------------------------------------------------
# attribute trees


def tree(obj, g):
    BD, Tok, St, Mol, Mix, Sys = g.BondDescriptor, g.SmilesToken, g.Stochastic, g.Molecule, g.Mixture, g.System
    if obj is None:
        return None
    if isinstance(obj, BD):
        tr = None if obj.transitions is None else list(obj.transitions)
        return ("bd", obj.descriptor, obj.descriptor_id, obj.weight, tr, int(obj.bond_type), getattr(obj, "atom_bonding_to", None))
    if isinstance(obj, Tok):
        return ("tok", [a.generate_string(False) for a in obj.atoms], [tree(b, g) for b in obj.bond_descriptors])
    if isinstance(obj, St):
        return ("st", tree(obj.left_terminal, g), tree(obj.right_terminal, g), [tree(t, g) for t in obj.repeat_tokens],
                [tree(t, g) for t in obj.end_tokens], tree_dist(obj.distribution))
    if isinstance(obj, Mol):
        return ("mol", [tree(e, g) for e in obj._elements], tree(obj.mixture, g))
    if isinstance(obj, Mix):
        return ("mix", obj.absolute_mass, obj.relative_mass)
    if isinstance(obj, Sys):
        return ("sys", [tree(m, g) for m in obj._molecules])
    return tree_dist(obj)


def tree_dist(d):
    if d is None:
        return None
    name = type(d).__name__
    attrs = {"Gauss": ("_mu", "_sigma"), "FlorySchulz": ("_a",), "SchulzZimm": ("_Mw", "_Mn"), "Uniform": ("_low", "_high"),
             "LogNormal": ("_M", "_D"), "Poisson": ("_N",)}.get(name, ())
    return (name,) + tuple(getattr(d, a) for a in attrs)


def tree_eq(a, b):
    if a is None or b is None:
        return a is None and b is None
    if isinstance(a, (tuple, list)):
        if not isinstance(b, (tuple, list)) or len(a) != len(b):
            return False
        return And(*[tree_eq(x, y) for x, y in zip(a, b)])
    r = a == b
    if isinstance(r, (bool, core.SymBool)):
        return r
    return bool(r)


def drop_weights(t):
    """structure without extensions: weights, transitions, distribution, mixture removed"""
    if t is None:
        return None
    if t[0] == "bd":
        return ("bd", t[1], t[2], t[5], t[6])
    if t[0] == "tok":
        return ("tok", t[1], [drop_weights(b) for b in t[2]])
    if t[0] == "st":
        return ("st", drop_weights(t[1]), drop_weights(t[2]), [drop_weights(x) for x in t[3]], [drop_weights(x) for x in t[4]])
    if t[0] == "mol":
        return ("mol", [drop_weights(e) for e in t[1]])
    return None


def erase(s):
    """s with every |...| segment removed"""
    items = list(s.items) if isinstance(s, SymStr) else list(s)
    out = []
    inside = False
    for it in items:
        if isinstance(it, SymChar):
            if bool(symstr._item_eq(it, "|")):
                inside = not inside
                continue
            if not inside:
                out.append(it)
            continue
        if isinstance(it, str) and it == "|":
            inside = not inside
            continue
        if not inside:
            out.append(it)
    return SymStr(out)._norm()


def text_of(c, mv, s):
    if isinstance(s, str):
        return s
    out = []
    for it in s.items:
        if isinstance(it, str):
            out.append(it)
        elif isinstance(it, Num):
            v = c.eval_in(mv, it.v) if core.is_sym(it.v) else it.v
            from symx.symstr import render_num

            out.append(render_num(it, v))
        else:
            out.append(chr(c.eval_in(mv, SymInt(it.e))))
    return "".join(out)


# ---------------------------------------------------------------------------


def roundtrip(c, g, level, text, make, label_prefix=""):
    """the C01 obligations for one accepted object; `make(text)` constructs at this level"""

    def detail(what, s=None):
        def build(mv, c):
            t = text_of(c, mv, text)
            return (f"C01:{level}:{what}", f"{level} {t!r}: {what}", {"kind": "roundtrip", "level": level, "text": t, "what": what})
        return build

    try:
        obj = make(text)
    except Exception as e:
        core.reraise_if_harness(e)
        return "rejected"
    s = obj.generate_string(True)
    try:
        obj2 = make(s)
    except Exception as e:
        core.reraise_if_harness(e)
        c.prove(False, "printed form is accepted again", detail(f"printed form is rejected ({type(e).__name__})"))
        return "print rejected"
    c.prove(True, "printed form is accepted again")
    s2 = obj2.generate_string(True)
    c.prove(s2 == s, "print is a fixed point", detail("printing the re-parsed object gives a different string"))
    c.prove(tree_eq(tree(obj, g), tree(obj2, g)), "same object after re-parse", detail("re-parsed object differs (elements / tokens / descriptors / weights / distribution / mixture)"))
    e1 = obj.generate_string(False)
    er = erase(s)
    c.prove(e1 == er, "extension-less print is the erased canonical string", detail("extension-less print is not the canonical string with |...| erased"))
    c.prove(not symstr.contains("|", e1), "extension-less print contains no '|'", detail("extension-less print contains '|'"))
    if level in ("molecule", "stochastic", "token", "descriptor"):
        try:
            obj3 = make(e1)
        except Exception as e:
            if isinstance(e, core_exceptions()):
                raise
            c.prove(False, "extension-less print is accepted", detail(f"extension-less print is rejected ({type(e).__name__})"))
            return "erased rejected"
        c.prove(tree_eq(drop_weights(tree(obj, g)), drop_weights(tree(obj3, g))), "extension-less print denotes the same tokens and descriptors",
                detail("extension-less print denotes different tokens / descriptors"))
    if level == "molecule":
        # "hence the same molecule under an identically seeded random generator": both objects generate with one and the same
        # scripted stream (first option of positive probability at every pick, one fixed target per block)
        try:
            gable = bool(obj.generable) and bool(obj2.generable)
        except Exception as e:
            core.reraise_if_harness(e)
            gable = False
        if gable:
            outs = []
            for o in (obj, obj2):
                gen.install_observers(g, gen.Observer())
                gen.DRAW_FN[0] = gen.scripted_draw([45.0] * 16)
                try:
                    r = o.generate(rng=_FirstPossible())
                    outs.append((r.smiles, r.weight))
                except Exception as e:
                    core.reraise_if_harness(e)
                    outs.append((f"raised {type(e).__name__}", None))
            c.prove(outs[0] == outs[1], "same molecule under the same generator stream", detail("the re-parsed object generates another molecule from the same stream"))
    return "ok"


class _FirstPossible:
    """generator stub: the first option of positive probability (decided by the solver where the probability is symbolic)"""

    def __deepcopy__(self, memo):
        return self

    def choice(self, a, size=None, replace=True, p=None, **kw):
        items = list(range(a)) if isinstance(a, int) else list(a)
        if p is None:
            return items[0]
        for it, q in zip(items, list(p.v) if hasattr(p, "v") else list(p)):
            if q > 0:
                return it
        raise core.emulated(ValueError("probabilities do not sum to 1"))

    # a pick computed from a uniform draw (inverse-CDF sampling): the smallest draw selects the first option of positive probability
    def random(self, size=None):
        return 0.0

    def uniform(self, low=0.0, high=1.0, size=None):
        return low


def core_exceptions():
    return (core.HarnessBug,)


NUM_RE = re.compile(r"[0-9]*\.?[0-9]+(?:[eE][-+]?[0-9]+)?\.?|[0-9]+\.")


def hole_positions(text):
    """token boundaries and the inside of |...| segments"""
    pos = set()
    inside = False
    for i, ch in enumerate(text):
        if ch == "|":
            inside = not inside
            pos.add(i + 1 if inside else i)
        if ch in "{},;":
            pos.add(i)
            pos.add(i + 1)
    pos.add(0)
    pos.add(len(text))
    return sorted(p for p in pos if 0 <= p <= len(text))


def bondsym_positions(text):
    """positions where a token that follows a stochastic object starts, and positions directly in front of a '{' that follows
    a token character: a bond symbol written there is taken over by the descriptor the parser adds"""
    pos = []
    inside = False
    last = ""      # last non-blank character outside |...|
    for i, ch in enumerate(text):
        if ch == "|":
            inside = not inside
            if not inside:
                last = "|"
            continue
        if inside or ch in " \t":
            continue
        if last in ("}", "|") and (ch.isalpha() or ch == "[") and ch != "{" and not text.startswith(".|", i):
            pos.append(i)
        if ch == "{" and last and (last.isalnum() or last in ")]"):
            pos.append(i)
        last = ch
    return pos


def templatize(c, text, hole=None):
    """numbers inside |...| become numeral atoms with fresh symbolic values of the same sign pattern;
    hole = ("blank", position): an optional blank is inserted there;
    hole = ("numfmt", k, fmt): the k-th number is written as an integer literal / with a trailing dot;
    hole = ("bondsym", position, symbol): a bond symbol is written in front of a token that follows a stochastic object / in
    front of a stochastic object that follows a token (most such texts are rejected; an accepted one must round-trip)"""
    parts = []
    n = 0
    numidx = -1
    pieces = text.split("|")
    pos = 0
    blank_at = hole[1] if hole and hole[0] in ("blank", "bondsym") else None
    inserted = hole[2] if hole and hole[0] == "bondsym" else " "
    for k, piece in enumerate(pieces):
        inside = k % 2 == 1
        subs = [piece]
        if blank_at is not None and pos <= blank_at <= pos + len(piece):
            off = blank_at - pos
            subs = [piece[:off], None, piece[off:]]
            blank_at = None
        for sub in subs:
            if sub is None:
                parts.append(inserted)
                continue
            if not inside:
                parts.append(sub)
                continue
            j = 0
            pct = "%" in sub
            ints = "uniform" in sub
            fam = sub.split("(")[0].strip() if "(" in sub else None
            vals = []
            for m in NUM_RE.finditer(sub):
                parts.append(sub[j:m.start()])
                lit = m.group(0)
                v0 = float(lit)
                numidx += 1
                fmt = hole[2] if hole and hole[0] == "numfmt" and hole[1] == numidx else None
                if v0 == 0:
                    parts.append(Num(0, "int") if (ints or fmt) else Num(0.0, "float"))
                    if fmt == "trailing-dot":
                        parts.append(".")
                    vals.append(0.0)
                else:
                    n += 1
                    if fmt in ("plain", "sci", "sci-short", "sci-upper") and not ints:
                        # another spelling of the same float: positional decimal / exponent notation
                        v = c.fresh_real(f"n{n}", 1e-6, 1e8)
                        parts.append(Num(v, "float", fmt))
                    elif ints or fmt:
                        v = c.fresh_int(f"n{n}", 1, 10**7)
                        parts.append(Num(v, "int"))
                        if fmt == "trailing-dot":
                            parts.append(".")
                    else:
                        v = c.fresh_real(f"n{n}", 1e-6, 1e8)
                        parts.append(Num(v, "float"))
                    if pct:
                        c.add((v < 100).e)
                    vals.append(v)
                j = m.end()
            parts.append(sub[j:])
            if fam == "uniform" and len(vals) == 2:
                c.add((vals[0] <= vals[1]).e)  # equal bounds are accepted and printed back
            if fam == "schulz_zimm" and len(vals) == 2:
                c.add((vals[0] > vals[1]).e)
            if fam == "flory_schulz" and len(vals) == 1 and core.is_sym(vals[0]):
                c.add((vals[0] < 1).e)
        pos += len(piece) + 1
        if k < len(pieces) - 1:
            parts.append("|")
    return SymStr.of(*[p for p in parts if not (isinstance(p, str) and p == "")])._norm()


def run_case(case, g, tier, res):
    on_path = collector(res, PROPERTY)
    kind = case["kind"]
    if kind == "bd":
        L = case["L"]

        def h(c):
            text = SymStr([fresh_char(f"c{i}", BD_ALPHA) for i in range(L)])
            return roundtrip(c, g, "descriptor", text, lambda t: g.BondDescriptor(t, 0, "", 0))

        explore_case(res, h, tier, on_path=on_path)
    elif kind == "mix":
        L = case["L"]

        def h(c):
            # the shape Molecule.__init__ hands to Mixture: '.|' body '|' with a body free of '|'
            body = [fresh_char(f"c{i}", MIX_ALPHA.replace("|", "")) for i in range(L)]
            text = SymStr.of(".|", SymStr(body), "|")
            return roundtrip(c, g, "mixture", text, lambda t: g.Mixture(t))

        explore_case(res, h, tier, on_path=on_path)
    elif kind == "dist":
        fam = case["fam"]
        from .C02 import NPAR

        def h(c):
            blank = lambda n: " " * c.fresh_int(n, 0, 1).__index__()
            ps = []
            for i in range(NPAR[fam]):
                ps.append(c.fresh_int(f"p{i}", 1, 10**6) if fam == "uniform" else c.fresh_real(f"p{i}", 1e-6, 1e7))
            parts = ["|", blank("b0"), fam, "("]
            for i, p in enumerate(ps):
                if i:
                    parts += [",", blank(f"b{i}")]
                parts.append(Num(p, "int" if fam == "uniform" else "float"))
            parts += [")", blank("be"), "|"]
            text = SymStr.of(*[p for p in parts if p != ""])
            dmod = sys.modules["gbigsmiles.distribution"]
            return roundtrip(c, g, "distribution", text, lambda t: dmod.get_distribution(t))

        explore_case(res, h, tier, on_path=on_path)
    else:
        level = case["level"]
        make = {"molecule": lambda t: g.Molecule(t), "system": lambda t: g.System(t), "stochastic": lambda t: g.Stochastic(t, 0)}[level]

        def h(c):
            text = templatize(c, case["text"], case["hole"])
            return roundtrip(c, g, level, text, make)

        explore_case(res, h, tier, on_path=on_path, budget_s=600)


# ---------------------------------------------------------------------------


def replay(rp, gb):
    import gbigsmiles.distribution as dmod

    level, t, what = rp["level"], rp["text"], rp["what"]
    make = {"descriptor": lambda x: gb.BondDescriptor(x, 0, "", 0), "mixture": lambda x: gb.Mixture(x), "distribution": lambda x: dmod.get_distribution(x),
            "molecule": lambda x: gb.Molecule(x), "system": lambda x: gb.System(x), "stochastic": lambda x: gb.Stochastic(x, 0)}[level]
    try:
        obj = make(t)
    except Exception as e:
        return False, f"first parse rejects {t!r}: {type(e).__name__}"
    s = str(obj)
    try:
        obj2 = make(s)
    except Exception as e:
        return what.startswith("printed form is rejected"), f"{t!r} prints as {s!r}, which is rejected: {type(e).__name__}: {e}"
    problems = []
    if str(obj2) != s:
        problems.append("printing the re-parsed object gives a different string")
    if not bool(tree_eq(_plain(tree(obj, gb)), _plain(tree(obj2, gb)))):
        problems.append("re-parsed object differs (elements / tokens / descriptors / weights / distribution / mixture)")
    e1 = obj.generate_string(False)
    if e1 != re.sub(r"\|[^|]*\|", "", s):
        problems.append("extension-less print is not the canonical string with |...| erased")
    if "|" in e1:
        problems.append("extension-less print contains '|'")
    if level in ("molecule", "stochastic", "descriptor"):
        try:
            obj3 = make(e1)
            if not bool(tree_eq(_plain(drop_weights(tree(obj, gb))), _plain(drop_weights(tree(obj3, gb))))):
                problems.append("extension-less print denotes different tokens / descriptors")
        except Exception as e:
            problems.append(f"extension-less print is rejected ({type(e).__name__})")
    return what in problems, f"{t!r} -> {s!r}: {problems}"


def _plain(t):
    import numpy as np

    if isinstance(t, (tuple, list)):
        return [_plain(x) for x in t]
    if isinstance(t, np.ndarray):
        return [float(x) for x in t]
    return t
