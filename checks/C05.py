"""C05 — decided on the shared gen-driver (checks/gendrive.py)."""
from . import gendrive
from .gendrive_meta import META

PROPERTY = "C05"
FUNCTIONS = gendrive_functions = META["functions"]
EXPLANATION = META["C05"]["explanation"]
ASSUMPTIONS = META["assumptions"]
OUTSIDE = META["C05"]["outside"]
REQUIRED_LABELS = META["C05"]["required"]


def bounds(tier):
    return META["bounds"](tier)


def cases(tier):
    return gendrive.gen_cases(tier)


def run_case(case, g, tier, res):
    gendrive.run_gen_case(case, g, tier, res, PROPERTY, {PROPERTY}, budget_s=META["budget"](tier))


def replay(rp, gb):
    return gendrive.replay_gen(rp, gb)
