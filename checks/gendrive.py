"""Shared driver and oracle for the generation properties C04-C08 (and parts of C06/C10).

The real Molecule.generate runs with symbolic weights, symbolic drawn targets and every
rng.choice outcome explored.  The oracle below is evaluated on every path, in two modes:
  * symbolic (checking process, rewritten package): obligations go to ctx.prove
  * concrete (replay on the plain package): obligations are evaluated in floating point
    with a relative tolerance; a failed obligation = the counter-example reproduces.
"""
from __future__ import annotations

import re
import sys

from rdkit import Chem
from rdkit.Chem import Descriptors as rdD

# ---------------------------------------------------------------------------
# skeletons: small generable molecules covering the archetypes of the properties.
# closed = outer ends closed (C06 applies).  N = max repeat units per block (quick, thorough)

SKELETONS = [
    dict(name="homo-prefix-suffix", text="N{[<][<]CC[>][>]}|gauss(100,10)|O", closed=True),
    dict(name="random-copolymer-weighted", text="N{[<][<]CC[>], [<|3|]CO[>][>]}|gauss(100,10)|O", closed=True),
    dict(name="endgroup-initiated", text="{[][<]CC[>]; [<]O, [>]N[]}|uniform(10,50)|", closed=True),
    dict(name="two-endgroup-types-weighted", text="{[][<]CC[>]; [<|2|]O, [<]F, [>]N[]}|poisson(30)|", closed=True),
    dict(name="block-with-connector", text="N{[<][<]CC[>][>]}|gauss(60,5)|CO{[<][<]CN[>][>]}|gauss(60,5)|F", closed=True),
    dict(name="two-blocks-no-connector", text="N{[<][<]CC[>][>]}|gauss(60,5)|{[<][<]CO[>][>]}|flory_schulz(0.1)|F", closed=True),
    dict(name="aa-bb-step-growth", text="{[][<]CC[<], [>]OCO[>]; [<][H], [>]F[]}|log_normal(50,1.2)|", closed=True),
    dict(name="dollar-homo", text="C{[$][$]CC[$][$]}|gauss(50,5)|O", closed=True),
    dict(name="star-three-descriptors", text="{[][$]CC([$])C[$]; [$][H][]}|gauss(60,5)|", closed=True, N=(1, 2)),
    dict(name="graft-ids", text="{[][<]CC([<1|0|])[>]; [<]O, [>]N, [>1]F[]}|gauss(50,5)|", closed=True),
    dict(name="transition-lists", text="{[][$|3 4 5 6 0 8|]C([$|4.0|])C=O,[$|6.0|]CC([$|10.1|])CO;[$][H], [$]O[]}|flory_schulz(9e-4)|", closed=True, shard=[2, 1, 6]),
    dict(name="left-terminal-list", text="N{[<|0 2 0 1|][<]CC[>], [<]CO[>][>]}|gauss(50,5)|O", closed=True),
    dict(name="aromatic-charged-bracket", text="[H]{[>][<]CC([>])c1ccccc1, [<]C[N+](C)(C)[>], [<][Si]C[>][<]}|gauss(150,5)|[O-]", closed=True),
    dict(name="list-carrying-handover", text="N{[<][<|0 1|]CC[>][>]}|gauss(60,5)|{[<][<]CO[>], [<]CN[>][>]}|gauss(60,5)|F", closed=True),
    dict(name="list-handover-to-shorter-table", text="{[][<]CC[>|0 0 1 0 0|], [<]CC(C)[>|0 0 1 0 0|]; [>][H][<]}|uniform(60, 80)|{[>][<]CO[>]; [<]F[]}|uniform(60, 80)|", closed=True),
    dict(name="same-fragment-two-orders", text="{[][<]OCC(C)[>], [>]C(C)CO[<]; [>][H], [<][H][]}|uniform(250, 300)|", closed=True),
    dict(name="terminal-list-incompatible-entry", text="N{[<|0 2 1 1|][<]CC[>], [<]CO[>][>]}|gauss(50,5)|O", closed=False),
    dict(name="descriptor-after-branch", text="{[][<]CC(C)([>])C(=O)OC; [<]O, [>]N[]}|gauss(150,5)|", closed=True),
    dict(name="isotope-labelled-unit", text="N{[<][<]C([2H])([2H])C([2H])(C)[>][>]}|gauss(60,5)|[2H]", closed=True),
    dict(name="list-can-close-before-suffix", text="OC{[>][<]CC[>|5 0 1|]; [<][H][<]}|gauss(50,5)|CCF", closed=False),
    dict(name="id-zero-and-idless", text="{[][$0]NCCO[$]; [$0]F, [$]Cl[]}|gauss(100,10)|", closed=True),
    dict(name="hypervalent-attachment-atoms", text="CS(=O){[$][$]CC[$][$]}|gauss(50,5)|S(=O)(=O)C", closed=True),
    dict(name="phosphonate-endgroups", text="{[][$]CC[$]; [$]S(=O)C, [$]P(=O)(OC)OC[]}|gauss(50,5)|", closed=True),
    dict(name="doubled-sign-charges", text="{[][<]CC[>]; [<][O-], [>][Cu++][]}|gauss(50,5)|", closed=True),
    dict(name="heavy-isotope-unit", text="N{[<][<][13CH2][13CH2][>][>]}|gauss(60,5)|O", closed=True),
    dict(name="zero-weight-chain-end", text="{[][<]CC(C)[>|0|]; [>][H], [<]F[]}|gauss(100,5)|", closed=True),
    dict(name="zero-weight-handover-only", text="N{[<][<]CC(C)[>|0|][>]}|gauss(100,5)|O", closed=True),
    dict(name="suffix-descriptor-after-branch", text="[H]{[>][<]CC[>][<]}|gauss(60,5)|CC(=O)[<]", closed=True),
    dict(name="chain-stopper-unit", text="{[][$]CC[$], [$|0.15|]CC(=O)O; [$][H][]}|gauss(100,10)|", closed=True),
    dict(name="list-to-endgroup-mixed", text="{[][<]CC[>|0 0 5 0 1 0|], [<]C(C)C[>]; [<][H], [>]O[]}|gauss(60,5)|", closed=True),
    dict(name="dead-end-endgroup", text="{[][$]CC[$]; [$][H], [$1]O[]}|gauss(50,5)|", closed=False),
    dict(name="branch-list-to-endgroup-open-terminal", text="[H]{[>][<]C(C[>|1 0 0 1|])C[>]; [<]Br[<]}|gauss(100,5)|", closed=False),
    dict(name="id-zero-terminals", text="C[>0]{[>0][<0]CC(C[>|0|])[>0]; [<]Cl, [<0]I[<0]}|gauss(60,5)|Br", closed=True),
    dict(name="explicit-hydrogen-unit", text="N{[<][<]C([H])(C)[>][>]}|gauss(60,5)|O", closed=True),
    dict(name="explicit-hydrogen-before-descriptor-atom", text="N{[<][<]C([H])CO[>][>]}|gauss(60,5)|F", closed=True, sigtag="explicit-hydrogen-before-descriptor-atom"),
    dict(name="twin-units-by-weight", text="{[][<]CC[>], [<|2|]CC[>]; [<][H], [>]O[]}|gauss(50,5)|", closed=True),
    dict(name="ring-bond-symbol-before-digit", text="{[][$]CC([$])C=1CCCCC1; [$][H][]}|gauss(100,5)|", closed=True, N=(1, 2)),
    dict(name="same-fragment-other-connectivity", text="C(C)(O)C{[$][$]CC[$][$]}|gauss(50,5)|CC(O)C", closed=True),
    dict(name="dollar-token-two-fitting", text="F{[$][$]CC[$][$]}|gauss(50,5)|[$|1|]C(Cl)C(Br)[$|3|]", closed=False, N=(1, 2)),
    dict(name="prefix-ending-in-branch", text="CC(C){[>][<]CC[>][<]}|gauss(50,5)|[H]", closed=True),
    # two descriptors WRITTEN alike on atoms that are not equivalent (a lookup of the picked descriptor by its text finds the first)
    dict(name="equal-descriptors-on-different-atoms", text="F{[$][$]CC(C)[$][$]}|gauss(50,5)|Cl", closed=True),
    dict(name="equal-descriptors-endgroup-start", text="{[][$]CC(C)[$]; [$][H][]}|gauss(50,5)|", closed=True),
    # (not 'closed': the list lets the prefix bond an end group directly, so that the object contributes no repeat unit at all)
    dict(name="left-terminal-list-with-endgroup-entry", text="CC{[$|1 1 2|][$]CC[$]; [$]O[]}|gauss(50,5)|", closed=False),
    dict(name="open-right-end", text="N{[<][<]CC[>][>]}|gauss(50,5)|", closed=False),
    dict(name="zero-weight-unit", text="N{[<][<]CC[>], [<|0|]CO[>|0|][>]}|gauss(50,5)|O", closed=True),
]


def skeletons(tier, names=None):
    out = []
    for s in SKELETONS:
        if names and s["name"] not in names:
            continue
        out.append(s)
    return out


# ---------------------------------------------------------------------------
# reference reading of a token text, independent of SmilesToken: descriptors become
# isotope-labelled dummy atoms and RDKit parses the result.

_BD = re.compile(r"\[[$<>][^\[\]]*\]")


def token_reference(text, fold_h=False):
    """returns dict(mol_with_dummies, atoms=[idx of real atoms in text order],
    descriptors=[(neighbour_real_index, bond_order)] in text order, frag=mol without dummies)"""
    k = [0]

    def sub(m):
        k[0] += 1
        return f"[{k[0]}*]"

    smi = _BD.sub(sub, text)
    # fold_h: RDKit's default reading (an explicit [H] on a heavy atom is folded into it, exactly as when the generator builds
    # the fragment molecule whose atom indices the descriptors carry); otherwise every written atom is kept (parse level)
    m = Chem.MolFromSmiles(smi) if fold_h else None
    if m is None:
        m = Chem.MolFromSmiles(smi, sanitize=False)
    if m is None:
        raise ValueError(f"reference parse failed for {text!r} -> {smi!r}")
    m.UpdatePropertyCache(strict=False)
    real = [a.GetIdx() for a in m.GetAtoms() if a.GetAtomicNum() != 0]
    pos = {idx: i for i, idx in enumerate(real)}
    dummies = sorted((a for a in m.GetAtoms() if a.GetAtomicNum() == 0), key=lambda a: a.GetIsotope())
    descr = []
    for d in dummies:
        nb = list(d.GetNeighbors())
        if len(nb) != 1:
            descr.append((None, None))
            continue
        b = m.GetBondBetweenAtoms(d.GetIdx(), nb[0].GetIdx())
        descr.append((pos[nb[0].GetIdx()], b.GetBondType()))
    em = Chem.RWMol(m)
    for a in sorted((d.GetIdx() for d in dummies), reverse=True):
        em.RemoveAtom(a)
    frag = em.GetMol()
    return {"with_dummies": m, "real": real, "descriptors": descr, "frag": frag, "smiles": smi}


_REF_CACHE = {}


_WEIGHT = re.compile(r"\|[^|\[\]]*\|")


def token_text(token):
    """the token as WRITTEN (the text the parser was handed, weights erased), not as the code prints it back"""
    raw = getattr(token, "_raw_text", None)
    if isinstance(raw, str) and raw.strip():
        return _WEIGHT.sub("", raw.strip())
    return str(token.generate_string(False))


def token_ref_cached(token):
    key = token_text(token)
    if key not in _REF_CACHE:
        _REF_CACHE[key] = token_reference(key, fold_h=True)
    return _REF_CACHE[key]


def frag_mass(token):
    ref = token_ref_cached(token)
    m = Chem.Mol(ref["frag"])
    try:
        Chem.SanitizeMol(m)
    except Exception:
        m.UpdatePropertyCache(strict=False)
    return rdD.HeavyAtomMolWt(m)


# ---------------------------------------------------------------------------
# provers


class SymProver:
    symbolic = True

    def __init__(self, c, enabled, detail):
        self.c = c
        self.enabled = enabled  # set of property ids whose obligations are asserted
        self.detail = detail  # callable(label) -> detail callable for Counterexample

    def check(self, prop, cond, label):
        if prop not in self.enabled:
            return
        self.c.prove(cond, f"{prop}:{label}", self.detail(prop, label))

    def eq(self, prop, a, b, label):
        if prop not in self.enabled:
            return
        self.c.prove(a == b, f"{prop}:{label}", self.detail(prop, label))

    def near(self, a, b, scale):
        """a == b up to the replay tolerance (1e-9 x scale): exact where the normal forms coincide (the usual case, no solver
        call), otherwise a deviation below what a replay in floating point can see is not reported"""
        r = a == b
        if r is True:
            return True
        from symx.core import And

        tol = scale * 1e-9
        return And(a - b <= tol, b - a <= tol)


class ConcreteProver:
    symbolic = False

    def __init__(self, enabled, tol=1e-9):
        self.enabled = enabled
        self.failed = []
        self.tol = tol
        self.count = 0

    def check(self, prop, cond, label):
        if prop not in self.enabled:
            return
        self.count += 1
        if not bool(cond):
            self.failed.append(f"{prop}:{label}")

    def near(self, a, b, scale):
        return abs(float(a) - float(b)) <= 1e-9 * max(abs(float(scale)), 1e-300)

    def eq(self, prop, a, b, label):
        if prop not in self.enabled:
            return
        self.count += 1
        try:
            # a reference value of exactly zero (an option that must never be taken) is compared exactly
            ok = (a == 0) if (isinstance(b, (int, float)) and b == 0) else abs(a - b) <= self.tol * max(1.0, abs(a), abs(b))
        except TypeError:
            ok = a == b
        if not ok:
            self.failed.append(f"{prop}:{label}")


# ---------------------------------------------------------------------------
# the conjugation rule on descriptor objects (independent of is_compatible)


def bd_tuple(bd):
    return (bd.descriptor, bd.descriptor_id, int(bd.bond_type))


def rule(a, b):
    sa, ia, oa = a if isinstance(a, tuple) else bd_tuple(a)
    sb, ib, ob = b if isinstance(b, tuple) else bd_tuple(b)
    if sa == "" or sb == "":
        return False
    if ia != ib or oa != ob:
        return False
    return (sa, sb) in (("$", "$"), ("<", ">"), (">", "<"))


def core_is_sym(x):
    from symx import core

    return core.is_sym(x)


def all_equal(ws, symbolic):
    if symbolic:
        from symx.core import And

        return And(*[w == ws[0] for w in ws[1:]])
    return all(w == ws[0] for w in ws[1:])


def total(ws):
    t = ws[0]
    for w in ws[1:]:
        t = t + w
    return t


# ---------------------------------------------------------------------------


def _frames():
    """(function name, frame) of the repository frames on the stack, innermost first"""
    out = []
    f = sys._getframe(1)
    while f is not None:
        fn = f.f_code.co_filename
        if "/gbigsmiles/" in fn:
            out.append((fn.rsplit("/", 1)[-1], f.f_code.co_name, f))
        f = f.f_back
    return out


class Oracle:
    """Follows the event stream of one generate() call and asserts C04-C08 on it."""

    def __init__(self, pkg, mol, prover, nmax=None):
        self.g = pkg
        self.mol = mol
        self.P = prover
        self.nmax = nmax
        self.choices = []  # (kind, rec) in order
        self.blocks = []  # per Stochastic.generate call
        self.cur = None
        self.errors = []
        self.n_choices = 0
        self.elements = list(mol._elements)
        self.Stochastic = pkg.Stochastic
        self.tok_elem = {}
        for ei, el in enumerate(self.elements):
            if isinstance(el, pkg.Stochastic):
                for t in el.repeat_tokens:
                    self.tok_elem[id(t)] = (ei, "R")
                for t in el.end_tokens:
                    self.tok_elem[id(t)] = (ei, "E")
            else:
                self.tok_elem[id(el)] = (ei, "K")

    # ---- C08: every rng.choice call ------------------------------------
    def on_choice(self, rec, c=None):
        P = self.P
        self.n_choices += 1
        fr = _frames()
        names = [(a, b) for a, b, _ in fr]
        pv = rec.p
        items = rec.items
        from symx.npshim import NAN

        if pv is not None and any(x is NAN or (isinstance(x, float) and x != x) for x in pv):
            P.check("C08", False, "probability vector contains NaN (division by a zero normaliser)")
            return
        # locate choose_compatible_weight
        ccw = None
        for i, (fn, name, f) in enumerate(fr):
            if name == "choose_compatible_weight":
                ccw = (i, f)
                break
        if ccw is not None:
            i, f = ccw
            L = f.f_locals["bond_descriptors"]
            B = f.f_locals["bond"]
            caller = fr[i + 1] if i + 1 < len(fr) else (None, None, None)
            self._check_ccw(L, B, items, pv, caller)
        else:
            fn, name, f = fr[0] if fr else (None, None, None)
            if fn == "system.py":
                pass  # component pick: C14
            else:
                # a pick that does not go through choose_compatible_weight: the listed transitions of the open descriptor.
                # The descriptor and its object are located by content (any frame of stochastic.py), not by function name.
                hit = None
                for fn2, name2, f2 in fr:
                    if fn2 != "stochastic.py":
                        continue
                    el = f2.f_locals.get("self")
                    cands = [v for v in f2.f_locals.values() if isinstance(v, self.g.BondDescriptor) and getattr(v, "transitions", None) is not None]
                    if isinstance(el, self.Stochastic) and cands:
                        sb = f2.f_locals.get("starting_bond")
                        if sb is None or sb not in cands:
                            sb = cands[0]
                        hit = (el, sb, f2.f_locals.get("my_mol"))
                        break
                if hit is not None:
                    self._check_transition_pick(hit[0], hit[1], items, pv, hit[2])
                else:
                    self.unknown_sites = getattr(self, "unknown_sites", 0) + 1
        self.choices.append(rec)

    def _law(self, ws):
        """reference law for weights ws: uniform if all equal, else proportional"""
        n = len(ws)
        if n == 1:
            return [1.0], True
        eq = all_equal(ws, self.P.symbolic)
        return eq, None

    def _check_ccw(self, L, B, items, pv, caller):
        P = self.P
        cfn, cname, cf = caller
        ref_idx = [i for i, bd in enumerate(L) if B is None or rule(B, bd)]
        P.check("C08", [int(x) for x in items] == ref_idx, f"candidates are the compatible descriptors ({cname})")
        P.check("C04", True, "candidate filter reached")
        if not ref_idx:
            # nothing is compatible (ill-posed notation): the generator is handed no option and refuses; nothing to judge
            return
        if pv is None or len(pv) != len(ref_idx):
            P.check("C08", False, f"probability vector has the wrong length ({cname})")
            return
        ws = [L[i].weight for i in ref_idx]
        n = len(ws)
        S = total(ws)
        if P.symbolic:
            from symx.core import Ite, And

            eq = all_equal(ws, True) if n > 1 else True
            for k in range(n):
                # p_k = 1/n if all weights equal else w_k / S   (cross-multiplied)
                if eq is True:
                    P.check("C08", P.near(pv[k] * n, 1, n), f"uniform pick for equal weights ({cname})")
                else:
                    lhs = pv[k]
                    # under the path condition eq is decided (the code forked on it) or not; prove both implications
                    from symx.core import Implies

                    P.check("C08", Implies(eq, P.near(lhs * n, 1, n)), f"uniform pick for equal weights ({cname})")
                    P.check("C08", Implies(~eq if not isinstance(eq, bool) else (not eq), P.near(lhs * S, ws[k], S)),
                            f"pick probability proportional to weight ({cname})")
                    if not core_is_sym(ws[k]) and ws[k] == 0:
                        # an option written with weight zero next to positive ones: probability exactly zero, never "tiny"
                        P.check("C08", Implies(~eq if not isinstance(eq, bool) else (not eq), lhs == 0), f"an option of weight zero has probability exactly zero ({cname})")
            tot = total(list(pv))
            P.eq("C08", tot, 1, f"probabilities sum to 1 ({cname})")
        else:
            eq = all(w == ws[0] for w in ws[1:])
            for k in range(n):
                ref = 1.0 / n if eq else ws[k] / S
                P.eq("C08", float(pv[k]), ref, f"uniform pick for equal weights ({cname})" if eq else f"pick probability proportional to weight ({cname})")
                if not eq and ws[k] == 0:
                    P.check("C08", float(pv[k]) == 0.0, f"an option of weight zero has probability exactly zero ({cname})")
        # provenance of the arguments, per call site
        try:
            self._check_provenance(L, B, cfn, cname, cf)
        except KeyError:
            # local names differ from the ones this oracle knows (refactored code): recorded, not a verdict
            self.unknown_sites = getattr(self, "unknown_sites", 0) + 1

    def _check_provenance(self, L, B, cfn, cname, cf):
        P = self.P
        if cname == "get_start":
            el = cf.f_locals["self"]
            P.check("C08", L is el.end_bonds and B is None, "start pick is over the end-group descriptors")
        elif cname == "add_repeat_unit":
            el = cf.f_locals["self"]
            mm = cf.f_locals["my_mol"]
            if B is None:
                P.check("C08", L is mm.bond_descriptors, "open-descriptor pick is over all open descriptors")
                self._check_block_start(el, mm)
            else:
                sb = cf.f_locals["starting_bond"]
                P.check("C08", L is el.repeat_bonds and B is sb and sb is mm.bond_descriptors[cf.f_locals["starting_bond_idx"]],
                        "partner pick is over the repeat-unit descriptors compatible with the picked open descriptor")
                P.check("C08", sb.transitions is None, "an open descriptor that carries a list gets its partner from the list, never from the weights")
        elif cname == "finalize_mol":
            el = cf.f_locals["self"]
            mm = cf.f_locals["my_mol"]
            if "invert_terminal" in cf.f_locals and "terminal_bond_idx" not in cf.f_locals:
                rt = el.right_terminal
                okB = (B is cf.f_locals["invert_terminal"] and B.descriptor == rt.descriptor
                       and B.descriptor_id == rt.descriptor_id and int(B.bond_type) == int(rt.bond_type))
                P.check("C08", L is mm.bond_descriptors and okB, "hand-over pick is over the open descriptors matching the right terminal")
            elif B is None:
                P.check("C08", L is mm.bond_descriptors, "capping: open-descriptor pick over all open descriptors")
            else:
                sb = cf.f_locals.get("starting_bond")
                P.check("C08", L is el.end_bonds and B is sb and sb is mm.bond_descriptors[cf.f_locals["starting_bond_idx"]],
                        "capping partner pick is over the end-group descriptors compatible with the open descriptor")
        elif cname == "generate" and cfn == "token.py":
            mm = cf.f_locals["my_mol"]
            pre = cf.f_locals["prefix"]
            P.check("C08", L is mm.bond_descriptors and B is pre.bond_descriptors[0], "token attachment pick is over the token's descriptors compatible with the prefix's open descriptor")
        else:
            # a call site this oracle does not know (refactored code): the generic law above was still checked;
            # the provenance of the arguments cannot be judged, which is recorded, not reported as a violation
            self.unknown_sites = getattr(self, "unknown_sites", 0) + 1

    def _check_block_start(self, el, mm):
        """first growth pick of a block that continues a prefix: the prefix's single open descriptor
        carries the weight / transition list written on the left terminal"""
        if not hasattr(self, "_blocks_seen"):
            self._blocks_seen = set()
        if id(el) in self._blocks_seen:
            return
        self._blocks_seen.add(id(el))
        lt = el.left_terminal
        if lt.descriptor == "":
            return
        P = self.P
        L = mm.bond_descriptors
        ok = len(L) == 1
        P.check("C08", ok, "a block that continues a prefix starts from exactly one open descriptor")
        if not ok:
            return
        bd = L[0]
        if lt.transitions is None:
            P.check("C08", bd.transitions is None, "left terminal's transition list is transferred to the prefix's open descriptor")
            P.eq("C08", bd.weight, lt.weight, "left terminal's weight is transferred to the prefix's open descriptor")
        else:
            same = bd.transitions is not None and len(bd.transitions) == len(lt.transitions)
            P.check("C08", same, "left terminal's transition list is transferred to the prefix's open descriptor")
            if same:
                for x, y in zip(list(bd.transitions), list(lt.transitions)):
                    P.eq("C08", x, y, "left terminal's transition list is transferred to the prefix's open descriptor")
                P.eq("C08", bd.weight, lt.weight, "left terminal's weight is transferred to the prefix's open descriptor")

    def _written_descriptor(self, sb, mm):
        """the descriptor of the parsed notation that the open descriptor sb of the growing molecule is a copy of"""
        if mm is None:
            return None
        for r_, lo, hi in getattr(mm, "_sx_residues", []):
            if lo <= int(sb.atom_bonding_to) < hi:
                for bd in r_.obj.bond_descriptors:
                    if bd.descriptor_num == sb.descriptor_num and int(bd.atom_bonding_to) + lo == int(sb.atom_bonding_to):
                        return bd
        return None

    def _same_list(self, a, b):
        if a is None or b is None:
            return a is None and b is None
        a, b = list(a), list(b)
        if len(a) != len(b):
            return False
        if self.P.symbolic:
            from symx.core import And

            return And(*[x == y for x, y in zip(a, b)])
        return all(abs(float(x) - float(y)) <= 1e-9 * max(1.0, abs(float(y))) for x, y in zip(a, b))

    def _check_transition_pick(self, el, sb, items, pv, mm=None):
        P = self.P
        orig = self._written_descriptor(sb, mm)
        if orig is not None:
            # the list that is followed is the one WRITTEN on that descriptor (or on the left terminal, whose list the
            # prefix's open descriptor takes over at the start of a block), not whatever the molecule's copy carries
            lt = el.left_terminal
            ok = self._same_list(sb.transitions, orig.transitions)
            if lt.transitions is not None:
                from symx.core import Or as _Or

                alt = self._same_list(sb.transitions, lt.transitions)
                ok = _Or(ok, alt) if P.symbolic else (ok or alt)
            P.check("C08", ok, "the list followed is the list written on the open descriptor")
        ts = list(sb.transitions)
        nall = len(el.repeat_bonds) + len(el.end_bonds)
        P.check("C08", len(pv) == len(ts) == nall and [int(x) for x in items] == list(range(nall)),
                "transition list covers every descriptor of the object (repeat then end)")
        if len(pv) != len(ts):
            return
        S = total(ts)
        for k in range(len(ts)):
            if P.symbolic:
                P.check("C08", P.near(pv[k] * S, ts[k], S), "listed transition weights are followed exactly")
            else:
                P.eq("C08", float(pv[k]), float(ts[k]) / float(S), "listed transition weights are followed exactly")
        self.cur_transition = (el, sb)

    # ---- end of path -----------------------------------------------------
    def finish(self, obs, result, exc, skeleton, draws_bound=None):
        P = self.P
        g = self.g
        # ---------------- C04: every attachment
        for rec in obs.attachments:
            a_list, b_list = rec["self_open"], rec["other_open"]
            i, j = rec["self_idx"], rec["other_idx"]
            inr = 0 <= i < len(a_list) and 0 <= j < len(b_list)
            P.check("C04", inr, "attachment indices are in range")
            if not inr:
                continue
            a, b = a_list[i], b_list[j]
            P.check("C04", rule((a["sym"], a["id"], int(a["bond_type"])), (b["sym"], b["id"], int(b["bond_type"]))),
                    f"bonded descriptors are compatible ({rec['site']})")
            mol_after = rec["mol_after"]
            off = rec["natoms_self"]
            bond = mol_after.GetBondBetweenAtoms(int(a["atom"]), int(b["atom"]) + off)
            P.check("C04", bond is not None and bond.GetBondType() == a["bond_type"] and int(a["bond_type"]) == int(b["bond_type"]),
                    f"new bond joins the two attachment atoms with the prescribed order ({rec['site']})")
            # the atoms the bond joins are the atoms the descriptors are written on (token text read independently by RDKit)
            okatom = True
            for side, st, tok_, lo_ in (("other", b, rec["other_token"], 0), ("self", a, None, None)):
                if side == "self":
                    for r_, lo2, hi2 in rec["self_residues"]:
                        if lo2 <= int(st["atom"]) < hi2:
                            tok_, lo_ = r_.obj, lo2
                if tok_ is None:
                    okatom = False
                    continue
                ref_ = token_ref_cached(tok_)
                k_ = int(st["num"]) - int(tok_.bond_descriptors[0].descriptor_num) if tok_.bond_descriptors else -1
                if not (0 <= k_ < len(ref_["descriptors"])) or ref_["descriptors"][k_][0] is None:
                    okatom = False
                    continue
                ra_, ro_ = ref_["descriptors"][k_]
                if int(st["atom"]) - lo_ != ra_:
                    okatom = False
                    continue
                src_mol = rec["mol_self_before"] if side == "self" else rec["mol_other_before"]
                at = src_mol.GetAtomWithIdx(int(st["atom"]))
                rat = ref_["with_dummies"].GetAtomWithIdx(ref_["real"][ra_])
                nb_ref = sorted(n.GetAtomicNum() for n in rat.GetNeighbors() if n.GetAtomicNum() != 0)
                nb_got = sorted(n.GetAtomicNum() for n in at.GetNeighbors() if lo_ <= n.GetIdx() < lo_ + len(ref_["real"]))
                if at.GetAtomicNum() != rat.GetAtomicNum() or at.GetFormalCharge() != rat.GetFormalCharge() or nb_ref != nb_got:
                    okatom = False
            P.check("C04", okatom, f"the bond joins the atoms the descriptors are written on ({rec['site']})")
            if rec.get("picked_num") is not None and rec["site"] == "add_repeat_unit":
                # two descriptors written alike are still two descriptors: the one that was picked is the one that is used
                P.check("C04", int(rec["picked_num"]) == int(b["num"]), "the new unit is attached through the descriptor that was picked")
            P.check("C04", rec["natoms_after"] == rec["natoms_self"] + rec["natoms_other"]
                    and rec["nbonds_after"] == rec["nbonds_self"] + rec["nbonds_other"] + 1,
                    "exactly one bond and no atom is added by an attachment")
            exp = [(x["sym"], x["id"], int(x["bond_type"]), int(x["atom"]), x["num"]) for k, x in enumerate(a_list) if k != i]
            exp += [(x["sym"], x["id"], int(x["bond_type"]), int(x["atom"]) + off, x["num"]) for k, x in enumerate(b_list) if k != j]
            got = [(x["sym"], x["id"], int(x["bond_type"]), int(x["atom"]), x["num"]) for x in rec["after_open"]]
            P.check("C04", got == exp, "both used descriptors are removed, every other open descriptor survives with shifted atom index")
            # the used descriptors were unused before: they sit on atoms that have a free valence position recorded
        # ---------------- C07: per block
        self._check_blocks(obs, skeleton, exc)
        if exc is not None and type(exc).__name__ in ("AtomValenceException", "AtomKekulizeException", "KekulizeException", "MolSanitizeException", "AtomSanitizeException"):
            P.check("C05", False, "generated molecule passes sanitisation")
        if exc is not None or result is None:
            if skeleton.get("closed"):
                P.check("C06", False, "generation of a well-posed molecule raised an exception")
            return
        # ---------------- final molecule
        res = result
        residues = [(r.obj, a, b) for r, a, b in getattr(res, "_sx_residues", [])]
        bonds = getattr(res, "_sx_bonds", [])
        rmol = res._mol
        nat = rmol.GetNumAtoms()
        cover = sorted((a, b) for _, a, b in residues)
        okcover = bool(cover) and cover[0][0] == 0 and cover[-1][1] == nat and all(cover[k][1] == cover[k + 1][0] for k in range(len(cover) - 1))
        P.check("C05", okcover, "atoms partition into residue instances")
        owner = {}
        for ri, (_, a, b) in enumerate(residues):
            for x in range(a, b):
                owner[x] = ri
        inter = []
        for bd in rmol.GetBonds():
            x, y = bd.GetBeginAtomIdx(), bd.GetEndAtomIdx()
            if owner.get(x) != owner.get(y):
                inter.append((min(x, y), max(x, y), bd.GetBondType()))
        rec_b = sorted((min(x, y), max(x, y), t) for x, y, t in bonds)
        P.check("C04", sorted(inter) == rec_b, "every inter-residue bond of the molecule was formed by a recorded attachment")
        P.check("C05", sorted(inter) == rec_b and len(inter) == len(residues) - 1, "residues are joined by exactly one bond per attachment, residues-1 in total")
        # tree: connected
        import networkx as nx

        rg = nx.Graph()
        rg.add_nodes_from(range(len(residues)))
        for x, y, _ in inter:
            rg.add_edge(owner[x], owner[y])
        P.check("C05", nx.is_connected(rg) and rg.number_of_edges() == len(residues) - 1, "residue graph is a tree")
        # residue identity
        total_mass = 0.0
        for ri, (tok, a, b) in enumerate(residues):
            ref = token_ref_cached(tok)
            frag = ref["frag"]
            same = (b - a) == frag.GetNumAtoms()
            if same:
                for k in range(b - a):
                    x, y = rmol.GetAtomWithIdx(a + k), frag.GetAtomWithIdx(k)
                    if (x.GetAtomicNum(), x.GetFormalCharge(), x.GetIsotope()) != (y.GetAtomicNum(), y.GetFormalCharge(), y.GetIsotope()):
                        same = False
                for k in range(b - a):
                    for l in range(k + 1, b - a):
                        b1 = rmol.GetBondBetweenAtoms(a + k, a + l)
                        b2 = frag.GetBondBetweenAtoms(k, l)
                        t1 = None if b1 is None else b1.GetBondType()
                        t2 = None if b2 is None else b2.GetBondType()
                        if t1 != t2 and not (_arom(t1) and _arom(t2)):
                            same = False
            P.check("C05", same, "each residue is an unmodified copy of its token (elements, charges, isotopes, internal bonds)")
            total_mass += frag_mass(tok)
        try:
            smol = res.mol
            sane = True
        except Exception:
            smol = None
            sane = False
        P.check("C05", sane, "generated molecule passes sanitisation")
        P.check("C05", abs(res.weight - total_mass) < 1e-6, "heavy-atom mass equals the sum of the residue masses")
        if sane:
            # the SMILES accessor denotes the molecule of the mol accessor (same atoms, isotopes and charges included)
            try:
                via_smiles = Chem.MolFromSmiles(res.smiles)
                same_mol = via_smiles is not None and Chem.MolToSmiles(via_smiles) == Chem.MolToSmiles(Chem.RemoveHs(smol)) or (
                    via_smiles is not None and Chem.MolToSmiles(via_smiles) == Chem.MolToSmiles(smol))
            except Exception:
                same_mol = False
            P.check("C05", same_mol, "the SMILES of the molecule denotes the molecule (elements, isotopes, charges)")
        # hydrogen counts: compare with the token parsed with dummy atoms in place of descriptors
        if sane and len(res.bond_descriptors) == 0:
            okh = True
            for ri, (tok, a, b) in enumerate(residues):
                ref = token_ref_cached(tok)
                wd = Chem.Mol(ref["with_dummies"])
                try:
                    Chem.SanitizeMol(wd)
                except Exception:
                    continue
                for k, idx in enumerate(ref["real"]):
                    ra = wd.GetAtomWithIdx(idx)
                    ga = smol.GetAtomWithIdx(a + k)
                    if ra.GetTotalNumHs() != ga.GetTotalNumHs():
                        okh = False
                    if ra.GetNoImplicit() != ga.GetNoImplicit() and not ra.GetNoImplicit():
                        okh = False
            P.check("C05", okh, "atoms carry the hydrogen count of the written token")
        # ---------------- C06
        if not skeleton.get("closed") and len(res.bond_descriptors) == 0:
            # an ill-posed skeleton may raise, but a molecule that is handed back as complete must contain every written element
            elem_of = [self.tok_elem.get(id(tok), (None, None)) for tok, _, _ in residues]
            okall = True
            for ei, el in enumerate(self.elements):
                # (a stochastic object is present if any of its tokens is: on an ill-posed notation a list may bond an end group
                # where a repeat unit was due)
                cnt = sum(1 for e, k in elem_of if e == ei)
                if cnt < 1 or (not isinstance(el, self.Stochastic) and cnt != 1):
                    okall = False
            P.check("C06", okall, "a molecule returned without open descriptor contains every written element")
        if skeleton.get("closed"):
            P.check("C06", len(res.bond_descriptors) == 0 and res.fully_generated, "molecule is fully generated (no open descriptor)")
            ndesc = sum(len(tok.bond_descriptors) for tok, _, _ in residues)
            P.check("C06", ndesc == 2 * len(inter), "every descriptor of every residue formed exactly one bond")
            # per attachment atom
            deg = {}
            for x, y, _ in inter:
                deg[x] = deg.get(x, 0) + 1
                deg[y] = deg.get(y, 0) + 1
            okdeg = True
            for tok, a, b in residues:
                want = {}
                for bd in tok.bond_descriptors:
                    want[a + int(bd.atom_bonding_to)] = want.get(a + int(bd.atom_bonding_to), 0) + 1
                for x in range(a, b):
                    if deg.get(x, 0) != want.get(x, 0):
                        okdeg = False
            P.check("C06", okdeg, "each attachment atom carries exactly as many inter-residue bonds as descriptors were written on it")
            elem_of = [self.tok_elem.get(id(tok), (None, None)) for tok, _, _ in residues]
            eidx = [e for e, _ in elem_of]
            P.check("C06", None not in eidx and eidx == sorted(eidx), "residues are created in the written element order")
            okonce = True
            for ei, el in enumerate(self.elements):
                cnt = sum(1 for e, k in elem_of if e == ei and k in ("K", "R"))
                if isinstance(el, self.Stochastic):
                    if cnt < 1:
                        okonce = False
                elif cnt != 1:
                    okonce = False
            P.check("C06", okonce, "each prefix/connector/suffix token occurs once and each stochastic object contributes at least one repeat unit")
            # links between elements
            link = {}
            okadj = True
            for x, y, _ in inter:
                e1, e2 = eidx[owner[x]], eidx[owner[y]]
                if e1 != e2:
                    if abs(e1 - e2) != 1:
                        okadj = False
                    link[(min(e1, e2), max(e1, e2))] = link.get((min(e1, e2), max(e1, e2)), 0) + 1
            for ei in range(len(self.elements) - 1):
                if link.get((ei, ei + 1), 0) != 1:
                    okadj = False
            P.check("C06", okadj, "consecutive elements are joined by exactly one bond and non-adjacent elements by none")
            okleaf = all(rg.degree(ri) == 1 for ri, (e, k) in enumerate(elem_of) if k == "E") if len(residues) > 1 else True
            P.check("C06", okleaf, "end groups are leaves")
            # hand-over descriptors match the written terminals
            okterm = True
            conj = {"$": "$", "<": ">", ">": "<"}
            for rec in obs.attachments:
                if rec["self_idx"] >= len(rec["self_open"]) or rec["other_idx"] >= len(rec["other_open"]):
                    continue
                a, b = rec["self_open"][rec["self_idx"]], rec["other_open"][rec["other_idx"]]
                tok_b = rec["other_token"]
                eb = self.tok_elem.get(id(tok_b), (None, None))
                ea = (None, None)
                for r, lo, hi in rec["self_residues"]:
                    if lo <= int(a["atom"]) < hi:
                        ea = self.tok_elem.get(id(r.obj), (None, None))
                if ea[0] is None or eb[0] is None or ea[0] == eb[0]:
                    continue
                left, right = self.elements[ea[0]], self.elements[eb[0]]
                if isinstance(left, self.Stochastic):
                    rt = left.right_terminal
                    # the growing side offers a descriptor conjugate to the right terminal, the next element one equal to it
                    if not (a["sym"] == conj.get(rt.descriptor) and a["id"] == rt.descriptor_id and ea[1] == "R"):
                        okterm = False
                    if not (b["sym"] == rt.descriptor and b["id"] == rt.descriptor_id):
                        okterm = False
                if isinstance(right, self.Stochastic):
                    lt = right.left_terminal
                    if not (a["sym"] == lt.descriptor and a["id"] == lt.descriptor_id):
                        okterm = False
                    if not (b["sym"] == conj.get(lt.descriptor) and b["id"] == lt.descriptor_id and eb[1] == "R"):
                        okterm = False
            P.check("C06", okterm, "hand-over bonds use descriptors matching the terminal descriptors")

    def _check_blocks(self, obs, skeleton, exc=None):
        """C07 from the event stream: per Stochastic.generate call.  A block that was cut short by an exception
        (no molecule is returned) is only asked for what it did before: 'at least one unit' and the stop test of its
        last unit are not asserted for it."""
        P = self.P
        ev = obs.events
        i = 0
        nblocks = 0
        while i < len(ev):
            if ev[i][0] == "draw":
                # the mass measured just before the draw is the start mass
                j = i - 1
                while j >= 0 and ev[j][0] != "mass":
                    j -= 1
                have_mass = any(e[0] == "mass" for e in ev)
                if have_mass:
                    P.check("C07", j >= 0, "start mass is measured before the draw")
                start = ev[j][1] if j >= 0 else 0.0
                start_atoms = ev[j][2] if j >= 0 else 0
                target = ev[i][2]
                dist = ev[i][1]
                nblocks += 1
                # walk forward to the next draw (or end): growth attachments and loop masses
                k = i + 1
                units = []
                cur_mass = 0.0
                masses = []
                left_open = []
                while k < len(ev) and ev[k][0] != "draw":
                    e = ev[k]
                    if e[0] == "attach" and e[1]["site"] == "add_repeat_unit":
                        tok = e[1]["other_token"]
                        cur_mass += frag_mass(tok)
                        units.append(tok)
                        masses.append(None)
                        left_open.append(len(e[1].get("after_open", [1])))
                    elif e[0] == "mass" and units and masses[-1] is None and e[1] is not None:
                        # first mass measurement after the unit was added = the loop's comparison
                        masses[-1] = (e[1], cur_mass)
                    elif e[0] == "blockend":
                        break
                    k += 1
                n = len(units)
                aborted = exc is not None and k >= len(ev)
                if not aborted:
                    P.check("C07", n >= 1, "at least one unit is added")
                if self.nmax is not None:
                    P.check("C07", n <= self.nmax, "unwinding bound: block stays within N units for target < N * (smallest unit mass)")
                run = 0.0
                for u in range(n):
                    run += frag_mass(units[u])
                    meas = masses[u]
                    if meas is None and not have_mass:
                        # the code does not measure through HeavyAtomMolWt (refactored): judge the stop rule on the masses of the
                        # written tokens themselves, with a 1e-6 band for the rounding of the code's own sum
                        if u < n - 1:
                            P.check("C07", run <= target + 1e-6, "growth continues while the added mass does not exceed the target")
                        elif not aborted and left_open[u] > 0:
                            P.check("C07", run > target - 1e-6, "growth stops right after the first unit that exceeds the target")
                        continue
                    if meas is None:
                        # loop left through the 'no open descriptor' exit: nothing compared
                        P.check("C07", u == n - 1, "a unit without comparison is the last one (no open descriptor left)")
                        if u == n - 1 and not aborted:
                            P.check("C07", left_open[u] == 0, "growth ends without a comparison only when no open descriptor is left")
                        continue
                    m_code, m_ref = meas
                    added = m_code - start
                    P.check("C07", abs(added - run) < 1e-6, "mass compared with the target is the mass this object has added so far (prefix, earlier elements and capping end groups excluded)")
                    if abs(added - run) >= 1e-6:
                        continue
                    if u < n - 1:
                        P.check("C07", added <= target, "growth continues while the added mass does not exceed the target")
                    elif aborted:
                        pass
                    else:
                        P.check("C07", added > target, "growth stops right after the first unit that exceeds the target")
                i = k
            else:
                i += 1
        nst = sum(1 for el in self.elements if isinstance(el, self.Stochastic))
        gens = [e for e in ev if e[0] == "draw"]
        P.check("C07", len(gens) == len(set(id(e[1]) for e in gens)), "one draw per stochastic object per generation")


def _arom(t):
    return t is not None and t == Chem.BondType.AROMATIC


# ---------------------------------------------------------------------------
# the symbolic path function and its concrete twin


class ReplayDone(Exception):
    pass


def block_bounds(g, mol, N):
    """per distribution object: target < N * (smallest repeat-unit mass of its block)"""
    out = {}
    for el in mol._elements:
        if isinstance(el, g.Stochastic) and el.distribution is not None:
            mmin = min(frag_mass(t) for t in el.repeat_tokens)
            out[id(el.distribution)] = N * mmin - 1e-6  # margin for float rounding of mass differences
    return out


def role_values(c, mv, roles):
    out = {}
    for role, term in roles.items():
        key = "/".join(str(x) for x in role)
        if isinstance(term, list):
            out[key] = [float(c.eval_in(mv, t)) for t in term]
        else:
            out[key] = float(c.eval_in(mv, term))
    return out


def apply_role_values(gen, mol, values):
    import numpy as np

    for role, bd in gen.all_descriptors(mol):
        key = "/".join(str(x) for x in role)
        if key not in values:
            continue
        v = values[key]
        if isinstance(v, list):
            bd.transitions = np.asarray([float(x) for x in v])
            bd.weight = bd.transitions.sum()
        else:
            bd.weight = float(v)


_LIST = re.compile(r"\|(\s*[0-9.eE+-]+(?:\s+[0-9.eE+-]+)+\s*)\|")


def list_twin(text):
    """the same notation with its first transition list reversed (same total, other entries); None if there is no list or
    the reversed list is the same"""
    m = _LIST.search(text)
    if m is None:
        return None
    ent = m.group(1).split()
    if ent == ent[::-1]:
        return None
    return text[:m.start(1)] + " ".join(ent[::-1]) + text[m.end(1):]


class FirstPossibleRng:
    """generator stub for auxiliary generations: the first option of positive probability"""

    def __deepcopy__(self, memo):
        return self

    def choice(self, a, size=None, replace=True, p=None, **kw):
        items = list(range(a)) if isinstance(a, int) else list(a)
        if p is None:
            return items[0]
        for it, q in zip(items, list(p.v) if hasattr(p, "v") else list(p)):
            if q > 0:
                return it
        raise ValueError("probabilities do not sum to 1")

    # a pick computed from a uniform draw (inverse-CDF sampling): the smallest draw selects the first option of positive probability
    def random(self, size=None):
        return 0.0

    def uniform(self, low=0.0, high=1.0, size=None):
        return low


def generate_twin_first(g, skel):
    """an earlier generation, in the same process, of a notation that differs only in the entries of a transition list"""
    from symx import gen

    tw = list_twin(skel["text"])
    if tw is None:
        return
    try:
        tm = g.Molecule(tw)
        gen.install_observers(g, gen.Observer())
        gen.DRAW_FN[0] = gen.scripted_draw([45.0] * 16)
        tm.generate(rng=FirstPossibleRng())
    except Exception:
        pass  # the twin may be ill-posed: only its side effects on the process matter


def symbolic_path(c, g, skel, N, enabled, weight_mode="symbolic", extra=None, forced=None):
    from symx import gen
    from symx.rng import SymRng

    if skel.get("after_twin"):
        generate_twin_first(g, skel)
    mol = g.Molecule(skel["text"])
    roles = gen.symbolize_weights(c, mol) if weight_mode == "symbolic" else {}
    obs = gen.Observer()
    gen.install_observers(g, obs)
    gen.DRAW_FN[0] = gen.symbolic_draw(block_bounds(g, mol, N))
    state = {}

    def detail(prop, label):
        def build(mv, c):
            picks = [r.index for r in state["rng"].calls]
            targets = [float(c.eval_in(mv, t)) for (_, t, _) in obs.draws]
            rp = {"kind": "gen", "skeleton": skel["name"], "text": skel["text"], "closed": skel.get("closed", False), "after_twin": bool(skel.get("after_twin")),
                  "weights": role_values(c, mv, roles), "picks": picks, "targets": targets, "label": f"{prop}:{label}",
                  "prop": prop, "N": N}
            sig = f"{prop}:{label}" + (f"@{skel['sigtag']}" if skel.get("sigtag") else "")
            return (sig, f"{label} [{skel['name']}: {skel['text']}] picks={picks} targets={targets}", rp)
        return build

    prover = SymProver(c, enabled, detail)
    oracle = Oracle(g, mol, prover, nmax=N)
    rng = SymRng(on_choice=oracle.on_choice, forced=forced)
    state["rng"] = rng
    gen.OBS[0] = obs
    result, exc = None, None
    try:
        try:
            result = mol.generate(rng=rng)
        except Exception as e:
            exc = e
    finally:
        gen.OBS[0] = None
    if extra is not None:
        extra(c, mol, roles, obs, rng, result, exc, prover)
    oracle.finish(obs, result, exc, skel)
    if exc is not None:
        raise exc
    return result.smiles, len(rng.calls)


class ScriptedRng:
    def __init__(self, picks, on_choice=None):
        import numpy as np

        self.picks = list(picks)
        self.k = 0
        self.on_choice = on_choice
        self.real = np.random.default_rng(0)
        self.calls = []

    def choice(self, a, size=None, replace=True, p=None, axis=0, shuffle=True):
        import numpy as np
        from symx.rng import ChoiceRecord

        items = list(range(a)) if isinstance(a, (int, np.integer)) else list(a)
        pv = None if p is None else [float(x) for x in np.asarray(p, dtype=float)]
        rec = ChoiceRecord(("?", "?", 0), len(items), pv, None, items)
        if self.on_choice is not None:
            self.on_choice(rec, None)
        if len(items) == 0:
            raise ValueError("a cannot be empty unless no samples are taken")
        if pv is not None:
            if any(x != x for x in pv):
                raise ValueError("probabilities contain NaN")
            if any(x < 0 for x in pv):
                raise ValueError("probabilities are not non-negative")
            if abs(sum(pv) - 1.0) > 1e-8:
                raise ValueError("probabilities do not sum to 1")
        if self.k >= len(self.picks):
            raise ReplayDone()
        i = self.picks[self.k]
        self.k += 1
        if i >= len(items) or (pv is not None and not pv[i] > 0):
            raise ReplayDone()
        rec.index = i
        self.calls.append(rec)
        return items[i]

    def __deepcopy__(self, memo):
        return self

    def __getattr__(self, n):
        if n.startswith("__") or n == "real":
            raise AttributeError(n)
        return getattr(self.real, n)


def replay_gen(rp, gb, extra=None):
    from symx import gen

    if rp.get("after_twin"):
        generate_twin_first(gb, {"text": rp["text"]})
    mol = gb.Molecule(rp["text"])
    apply_role_values(gen, mol, rp["weights"])
    obs = gen.Observer()
    gen.install_observers(gb, obs)
    gen.DRAW_FN[0] = gen.scripted_draw(rp["targets"])
    prover = ConcreteProver({rp["prop"]})
    skel = {"name": rp["skeleton"], "text": rp["text"], "closed": rp["closed"]}
    oracle = Oracle(gb, mol, prover, nmax=rp.get("N"))
    rng = ScriptedRng(rp["picks"], on_choice=oracle.on_choice)
    gen.OBS[0] = obs
    result, exc, done = None, None, False
    try:
        try:
            result = mol.generate(rng=rng)
        except (ReplayDone, StopIteration):
            done = True
        except Exception as e:
            exc = e
    finally:
        gen.OBS[0] = None
    if rp["label"] in prover.failed:
        return True, f"obligation failed concretely during generation: {rp['label']}"
    if done:
        return False, f"scripted stream ended without failing {rp['label']}; failed={prover.failed}"
    if extra is not None:
        extra(mol, obs, rng, result, exc, prover, rp)
    oracle.finish(obs, result, exc, skel)
    ok = rp["label"] in prover.failed
    return ok, f"failed obligations: {prover.failed[:6]} (checked {prover.count}); exception={type(exc).__name__ if exc else None}"


def gen_cases(tier, nq=2, nt=3, names=None):
    out = []
    for s in skeletons(tier, names):
        N = nq if tier == "quick" else nt
        if "N" in s:
            N = s["N"][0] if tier == "quick" else s["N"][1]
        if s.get("shard"):
            # heavy skeleton: one shard per combination of the first random picks (the shards partition the paths)
            import itertools

            for f in itertools.product(*[range(n) for n in s["shard"]]):
                out.append({"name": f"{s['name']}/N{N}/picks{''.join(map(str, f))}", "skeleton": s, "N": N, "forced": list(f)})
        else:
            out.append({"name": f"{s['name']}/N{N}", "skeleton": s, "N": N})
            if list_twin(s["text"]) is not None:
                # the same skeleton with the weights as written, generated after a near twin of it (a notation that differs only
                # in the entries of a transition list) was generated in the same process
                s2 = dict(s, after_twin=True, concrete_weights=True)
                out.append({"name": f"{s['name']}/N{N}/after-list-twin", "skeleton": s2, "N": N})
    return out


def run_gen_case(case, g, tier, res, prop, enabled, budget_s=None, extra=None):
    from .common import collector, explore_case

    skel, N = case["skeleton"], case["N"]

    def h(c):
        return symbolic_path(c, g, skel, N, enabled, extra=extra, forced=case.get("forced"),
                             weight_mode="concrete" if skel.get("concrete_weights") else "symbolic")

    stats, cexs, complete = explore_case(res, h, tier, on_path=collector(res, prop), budget_s=budget_s)
    # exceptions on paths are part of the verdict of C06 (closed skeletons); elsewhere they are recorded
    res.extra["skeleton"] = skel["text"]
    res.extra["N"] = N
