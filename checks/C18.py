"""C18 — atom-graph generation yields trees of whole residues joined along graph edges."""
from __future__ import annotations

import sys

import networkx as nx
from rdkit import Chem

from symx import core, gen
from symx.core import And, Or, Not
from symx.rng import SymRng

from . import gendrive
from .common import collector, explore_case

PROPERTY = "C18"
FUNCTIONS = ["gbigsmiles.graph_generate.AtomGraph.__init__ / generate / _fill_static_edges / _fill_stochastic_edges / _add_stochastic_connection / "
             "_terminate_graph / _next_stochastic_edge / _next_termination_edge / _next_transition_edge / _add_node / _build_static_graph / to_mol",
             "gbigsmiles.stochastic_atom_graph.StochasticAtomGraph.generate (builds the input graph)"]
EXPLANATION = (
    "AtomGraph.generate runs on the stochastic atom graph of each Schulz-Zimm skeleton with every rng.choice outcome explored, the Schulz-Zimm draw per "
    "(Mw, Mn) key a fresh real (stubbed draw, bounded above so that a block has at most N units) and descriptor weights symbolic. On every finished "
    "path: generated atoms are grouped into residue instances along edges that are static in the stochastic graph; every instance contains all atoms "
    "and internal bonds of its token exactly once; every bond between instances corresponds to a non-static edge of the stochastic graph between those "
    "atoms with the same bond order; instances form a tree; to_mol() sanitises; the path is finite within the bound; a second run with the same "
    "choice sequence and draws yields the same molecule."
)
ASSUMPTIONS = ["events of probability <= 1e-200 introduced by the code's EPSILON = 1e-300 are treated as impossible (rng stub threshold)",
               "SchulzZimm.draw_mw replaced by a nondeterministic stub", "numpy in graph_generate.py replaced by the list-backed shim", "token chemistry concrete"]
OUTSIDE = ["blocks longer than N units", "events of probability <= 1e-200", "non-Schulz-Zimm molecules (the generator refuses them)"]
REQUIRED_LABELS = ["residue instances are whole copies of their tokens", "bonds between residues follow non-static graph edges with their bond order",
                   "residues form a tree", "molecule sanitises", "equal streams give equal molecules"]

SKELS = [
    dict(name="sz-homo", text="N{[<][<]CC[>][>]}|schulz_zimm(60,50)|O", hi=66),
    dict(name="sz-endgroups", text="{[][<]CC[>]; [<]O, [>]N[]}|schulz_zimm(60,50)|", hi=66),
    dict(name="sz-multiatom-endgroups", text="{[][<]CC[>]; [<]OC, [>]NCC[]}|schulz_zimm(60,50)|", hi=70),
    dict(name="sz-copolymer", text="N{[<][<]CC[>], [<|2|]CO[>][>]}|schulz_zimm(60,50)|O", hi=60),
    dict(name="sz-two-blocks", text="N{[<][<]CC[>][>]}|schulz_zimm(60,50)|{[<][<]CO[>][>]}|schulz_zimm(70,50)|F", hi=45),
    dict(name="sz-double-bond-between-descriptor-atoms", text="N{[<][<]C=C[>][>]}|schulz_zimm(60,50)|O", hi=66),
    dict(name="sz-two-open-ends-two-endgroups", text="{[][<]CC(C[<])[>]; [>]O, [>]N, [<]F[]}|schulz_zimm(60,50)|", hi=45),
    dict(name="sz-dollar-blocks-saturated-linker", text="{[][$]CC[$]; [$]F[$]}|schulz_zimm(60,50)|C(C)(C)C{[$][$]CCC[$]; [$]Br[]}|schulz_zimm(60,50)|", hi=40),
    dict(name="sz-ab2-no-endgroup-two-blocks", text="C{[>][<]CC(CO[>])O[>][<]}|schulz_zimm(120,100)|{[>][<]CCS[>][<]}|schulz_zimm(90,70)|", hi=40, hi_thorough=80),
    dict(name="sz-ring-endgroup", text="{[][<]CC[>]; [<]C1CCCCC1, [>]N[]}|schulz_zimm(60,50)|", hi=45),
    dict(name="sz-branch-unit", text="N{[<][<]CC(C)[>][>]}|schulz_zimm(60,50)|[Si]", hi=80),
    # an atom whose only partners are end groups (termination edges, no stochastic edge)
    dict(name="sz-graft-capped-by-endgroup-only", text="{[][$]CC([<1])C[$]; [$][H], [>1]COC[]}|schulz_zimm(90,70)|", hi=60),
]


def bounds(tier):
    return {"skeletons": [s["text"] for s in SKELS], "target": "< hi per skeleton (2-3 units per block; thorough: hi + 28 Da, one more unit)", "weights": "{0} u [1e-6,1e6]"}


def cases(tier):
    return [{"name": s["name"], "skel": s} for s in SKELS]


def analyse(P, sag_graph, graph, to_mol):
    """oracle on one generated graph"""
    # tokens of the stochastic graph = components of its static edges
    static = nx.Graph()
    static.add_nodes_from(sag_graph.nodes())
    nonstatic = {}
    for u, v, d in sag_graph.edges(data=True):
        if d["static_weight"] != 0:
            static.add_edge(u, v, bond_type=d["bond_type"])
        else:
            nonstatic.setdefault((u, v), set()).add(d["bond_type"])
    comp_of = {}
    comps = []
    for ci, comp in enumerate(nx.connected_components(static)):
        comps.append(comp)
        for n in comp:
            comp_of[n] = ci
    sn = {n: d["stochastic_node"] for n, d in graph.nodes(data=True)}
    # residue instances: a stochastic and a static edge may join the same pair of stochastic nodes (homopolymer
    # '[<]CC[>]'), so instances are read off the creation order: node ids are handed out consecutively and a whole
    # token copy occupies a contiguous block of ids (seed atom first, then the rest of its token)
    ids = sorted(graph.nodes())
    instances = []
    whole = ids == list(range(len(ids)))
    i = 0
    while whole and i < len(ids):
        comp = comps[comp_of[sn[ids[i]]]]
        block = ids[i: i + len(comp)]
        if sorted(sn[n] for n in block) != sorted(comp):
            whole = False
            break
        back = {sn[n]: n for n in block}
        for a_, b_ in static.subgraph(comp).edges():
            if not (graph.has_edge(back[a_], back[b_]) and graph[back[a_]][back[b_]]["bond_type"] == static[a_][b_]["bond_type"]):
                whole = False
        instances.append(set(block))
        i += len(comp)
    P.check(whole, "residue instances are whole copies of their tokens")
    if not whole:
        return None
    inst_tmp = {}
    for k, nodes in enumerate(instances):
        for n in nodes:
            inst_tmp[n] = k
    inter = []
    for u, v, d in graph.edges(data=True):
        a_, b_ = sn[u], sn[v]
        if inst_tmp[u] == inst_tmp[v] and static.has_edge(a_, b_) and static[a_][b_]["bond_type"] == d["bond_type"]:
            continue
        inter.append((u, v, d["bond_type"]))
    inst_of = {}
    for i, nodes in enumerate(instances):
        for n in nodes:
            inst_of[n] = i
    ok_inter = True
    rg = nx.Graph()
    rg.add_nodes_from(range(len(instances)))
    for u, v, bt in inter:
        a, b = sn[u], sn[v]
        if not (bt in nonstatic.get((a, b), ()) or bt in nonstatic.get((b, a), ())):
            ok_inter = False
        if inst_of[u] == inst_of[v]:
            ok_inter = False
        rg.add_edge(inst_of[u], inst_of[v])
    P.check(ok_inter, "bonds between residues follow non-static graph edges with their bond order")
    P.check(len(instances) > 0 and nx.is_connected(rg) and len(inter) == len(instances) - 1, "residues form a tree")
    try:
        mol = to_mol()
        smi = Chem.MolToSmiles(mol)
        sane = "." not in smi
    except Exception:
        sane, smi = False, None
    P.check(sane, "molecule sanitises")
    return smi


class FixedRng:
    """returns the recorded picks again (no validation): second run of the same stream"""

    def __init__(self, picks, others=None):
        self.picks, self.k = list(picks), 0
        self.records = []  # (number of options, probability vector) per call
        self.others, self.ko = list(others or []), 0  # values handed out by random / uniform / integers in the first run

    def __deepcopy__(self, memo):
        return self

    def _other(self):
        if self.ko >= len(self.others):
            raise gendrive.ReplayDone()
        self.ko += 1
        return self.others[self.ko - 1][1]

    def random(self, size=None):
        return self._other()

    def uniform(self, low=0.0, high=1.0, size=None):
        return low + (high - low) * self._other()

    def integers(self, low, high=None, size=None):
        return self._other()

    def choice(self, a, size=None, replace=True, p=None, **kw):
        items = list(range(a)) if isinstance(a, int) else list(a)
        self.records.append((len(items), None if p is None else list(p.v if hasattr(p, "v") else p)))
        if self.k >= len(self.picks):
            raise gendrive.ReplayDone()
        i = self.picks[self.k]
        self.k += 1
        if i >= len(items):
            raise gendrive.ReplayDone()
        return items[i]


class _P:
    def __init__(self, c, detail):
        self.c, self.detail = c, detail

    def check(self, cond, label):
        self.c.prove(cond, label, self.detail(label))


class _CP:
    def __init__(self):
        self.failed = []

    def check(self, cond, label):
        if not bool(cond):
            self.failed.append(label)


DECISIONS = 400


def run_case(case, g, tier, res):
    on_path = collector(res, PROPERTY)
    skel = case["skel"]
    text = skel["text"]

    def h(c):
        mol = g.Molecule(text)
        roles = gen.symbolize_weights(c, mol)
        obs = gen.Observer()
        gen.install_observers(g, obs)
        gen.DRAW_FN[0] = gen.symbolic_draw({}, skel.get("hi_thorough", skel["hi"] + 28) if tier == "thorough" else skel["hi"])  # thorough: one more unit per block
        gen.OBS[0] = obs
        def bounded(rec, c_):
            # termination: a graph of at most 60 atoms needs far fewer than DECISIONS random decisions; a generation that is
            # still drawing then is reported (and replayed on the plain package), not cut off silently
            if len(rng.calls) >= DECISIONS:
                c.prove(False, "unwinding bound", detail(f"generation does not end within {DECISIONS} random decisions"))
                raise core.Infeasible()

        rng = SymRng(zero_threshold=1e-200, on_choice=bounded)
        from symx import npshim
        grng = SymRng(zero_threshold=1e-200)
        npshim.GLOBAL_RANDOM_HOOK[0] = grng
        sag = mol.gen_stochastic_atom_graph(True)

        def detail(label):
            def build(mv, c):
                picks = [r.index for r in rng.calls]
                targets = [float(c.eval_in(mv, t)) for (_, t, _) in obs.draws]
                vals = gendrive.role_values(c, mv, roles)
                sig = f"C18:{label}" + (f":{skel['name']}" if label.startswith("a later generation in the same process") else "")
                return (sig, f"{label} [{skel['name']}: {text}] picks={picks} targets={targets}",
                        {"kind": "ag", "text": text, "weights": vals, "picks": picks, "targets": targets, "label": label})
            return build

        P = _P(c, detail)
        ag = g.AtomGraph(sag, rng=rng)
        try:
            try:
                ag.generate()
            except Exception as e:
                core.reraise_if_harness(e)
                c.prove(False, "generation terminates without error", detail(f"generate raised {type(e).__name__}"))
                return
        finally:
            gen.OBS[0] = None
        c.prove(len(ag.graph) <= 60, "unwinding bound", detail("graph grows beyond the bound"))
        c.prove(len(grng.calls) + len(grng.other_calls) == 0, "only the supplied generator is used", detail("a random decision is drawn from numpy's global state instead of the supplied generator"))
        smi = analyse(P, sag.graph, ag.graph, ag.to_mol)
        # determinism: replay the same picks / draws concretely inside this path
        picks = [r.index for r in rng.calls]
        draws = [t for (_, t, _) in obs.draws]
        rng2 = FixedRng(picks)
        ndraw = [0]
        it_draws = iter(draws)

        def counted_draw(dist, r):
            ndraw[0] += 1
            return next(it_draws)

        gen.DRAW_FN[0] = counted_draw
        ag2 = g.AtomGraph(sag, rng=rng2)
        try:
            ag2.generate()
            smi2 = Chem.MolToSmiles(ag2.to_mol())
        except (gendrive.ReplayDone, StopIteration):
            smi2 = None
        except Exception as e:
            core.reraise_if_harness(e)
            smi2 = None
        c.prove(smi2 == smi or smi is None, "equal streams give equal molecules", detail("a second run with the same picks and draws gives another molecule"))
        # the second generation consumes the generator exactly like the first: as many target masses drawn, as many picks made
        # (otherwise equally seeded generators drift apart between the first and a later generation of the same process)
        c.prove(ndraw[0] == len(draws) and rng2.k == len(picks), "a later generation consumes the generator like the first",
                detail("a later generation in the same process draws another number of values from the generator than the first"))
        return smi

    explore_case(res, h, tier, on_path=on_path, budget_s=900)


def replay(rp, gb):
    mol = gb.Molecule(rp["text"])
    gendrive.apply_role_values(gen, mol, rp["weights"])
    obs = gen.Observer()
    gen.install_observers(gb, obs)
    gen.DRAW_FN[0] = gen.scripted_draw(rp["targets"])
    sag = mol.gen_stochastic_atom_graph(True)
    if rp["label"].startswith("a later generation in the same process draws"):
        # real generators, equal fresh seeds, two generations in one process: they must agree
        import numpy as np

        gen.restore_draws(gb)
        import re as _re

        diff = []
        for seed in range(12):
            # the weights as written (the model's may be extreme), ten times longer chains (more picks to compare) and a
            # distribution no earlier generation of this process has used
            t10 = _re.sub(r"schulz_zimm\((\d+),\s*(\d+)\)", lambda m: f"schulz_zimm({int(m.group(1)) * 10 + seed}, {int(m.group(2)) * 10})", rp["text"])
            sag0 = gb.Molecule(t10).gen_stochastic_atom_graph(True)
            outs = []
            for _ in range(2):
                a = gb.AtomGraph(sag0, rng=np.random.default_rng(seed))
                a.generate()
                outs.append(Chem.MolToSmiles(a.to_mol()))
            if outs[0] != outs[1]:
                diff.append((seed, outs))
        return bool(diff), f"two generations with equal fresh seeds in one process differ for {len(diff)} of 12 seeds: {diff[:1]}"
    rng = gendrive.ScriptedRng(rp["picks"])
    ag = gb.AtomGraph(sag, rng=rng)
    P = _CP()
    import numpy as _np
    used_global = []
    saved = {}
    for fn in ("choice", "random", "rand", "uniform"):
        saved[fn] = getattr(_np.random, fn)
        setattr(_np.random, fn, (lambda f, n: (lambda *a, **k: (used_global.append(n), f(*a, **k))[1]))(saved[fn], fn))
    try:
        ag.generate()
    except gendrive.ReplayDone:
        if rp["label"].startswith("generation does not end within"):
            return rng.k >= DECISIONS - 1, f"the plain package is still drawing after {rng.k} random decisions (graph of {len(ag.graph)} atoms)"
        return ("numpy's global state" in rp["label"] and bool(used_global)), f"scripted stream ended early; numpy.random legacy functions used: {used_global[:5]}"
    except Exception as e:
        return "raised" in rp["label"], f"generate raised {type(e).__name__}: {e}"
    finally:
        for fn, f in saved.items():
            setattr(_np.random, fn, f)
    if "numpy's global state" in rp["label"]:
        return bool(used_global), f"numpy.random legacy functions used: {used_global[:5]}"
    smi = analyse(P, sag.graph, ag.graph, ag.to_mol)
    if rp["label"] == "equal streams give equal molecules":
        gen.DRAW_FN[0] = gen.scripted_draw(rp["targets"])
        ag2 = gb.AtomGraph(sag, rng=gendrive.ScriptedRng(rp["picks"]))
        ag2.generate()
        return Chem.MolToSmiles(ag2.to_mol()) != smi, f"{smi} vs second run"
    return rp["label"] in P.failed, f"{smi}: failed {P.failed}"
