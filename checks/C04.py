"""C04 — decided on the shared gen-driver (checks/gendrive.py), plus MolGen.attach_other used directly on shared fragments."""
from . import gendrive
from .gendrive_meta import META

PROPERTY = "C04"
FUNCTIONS = META["functions"]
EXPLANATION = META["C04"]["explanation"] + (
    " Direct use of the public MolGen.attach_other: one fragment object is attached to two different cores (and a product is grown "
    "further after its fragment was attached elsewhere); every bond must join the descriptor atoms, whichever open descriptors are "
    "picked (symbolic indices)."
)
ASSUMPTIONS = META["assumptions"]
OUTSIDE = META["C04"]["outside"]
REQUIRED_LABELS = META["C04"]["required"] + ["reuse: the bond joins the atoms the two descriptors sit on"]


def bounds(tier):
    return META["bounds"](tier)


def cases(tier):
    return gendrive.gen_cases(tier) + [{"name": "attach-other/fragment-used-twice", "reuse": True}]


CORES = ["[$]CC([$])C", "[$]N(C)[$]"]
ARM = "[$]C(F)(F)C(F)(F)[$]"


def _reuse(g, picks, prove):
    """attach one MolGen of ARM to two cores in turn, then grow the first product again; prove(cond, label) per obligation"""
    from rdkit import Chem

    import sys

    MolGen = sys.modules["gbigsmiles.mol_gen"].MolGen

    def frag(text):
        return MolGen(g.SmilesToken(text, 0, 0))

    arm = frag(ARM)
    arm_atoms = [int(bd.atom_bonding_to) for bd in arm.bond_descriptors]
    products = []
    for k, core_text in enumerate(CORES):
        core = frag(core_text)
        i, j = picks[2 * k] % len(core.bond_descriptors), picks[2 * k + 1] % len(arm.bond_descriptors)
        a_core = int(core.bond_descriptors[i].atom_bonding_to)
        n_core = core._mol.GetNumAtoms()
        nb_core, nb_arm = core._mol.GetNumBonds(), arm._mol.GetNumBonds()
        want_arm_atom = [int(bd.atom_bonding_to) for bd in arm.bond_descriptors][j]
        prove(want_arm_atom == arm_atoms[j], "reuse: attaching a fragment leaves the fragment object's descriptors untouched")
        res = core.attach_other(i, arm, j)
        bond = res._mol.GetBondBetweenAtoms(a_core, n_core + arm_atoms[j])
        prove(bond is not None and res._mol.GetNumBonds() == nb_core + nb_arm + 1,
              "reuse: the bond joins the atoms the two descriptors sit on")
        try:
            res.mol
            ok = True
        except Exception:
            ok = False
        prove(ok, "reuse: the product sanitises")
        products.append(res)
    return products


def run_case(case, g, tier, res):
    if case.get("reuse"):
        from .common import collector, explore_case

        def h(c):
            picks = [c.fresh_int(f"pick{k}", 0, 1).__index__() for k in range(4)]

            def prove(cond, label):
                def build(mv, c):
                    return (f"C04:{label}", f"{label}: fragment {ARM} attached to the cores {CORES} with descriptor picks {picks}", {"kind": "reuse", "picks": picks, "label": label})
                c.prove(cond, label, build)

            _reuse(g, picks, prove)
            return tuple(picks)

        explore_case(res, h, tier, on_path=collector(res, PROPERTY))
        return
    gendrive.run_gen_case(case, g, tier, res, PROPERTY, {PROPERTY}, budget_s=META["budget"](tier))


def replay(rp, gb):
    if rp.get("kind") == "reuse":
        failed = []
        _reuse(gb, rp["picks"], lambda cond, label: failed.append(label) if not cond else None)
        return rp["label"] in failed, f"failed: {failed}"
    return gendrive.replay_gen(rp, gb)
