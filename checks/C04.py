"""C04 — decided on the shared gen-driver (checks/gendrive.py)."""
from . import gendrive
from .gendrive_meta import META

PROPERTY = "C04"
FUNCTIONS = gendrive_functions = META["functions"]
EXPLANATION = META["C04"]["explanation"]
ASSUMPTIONS = META["assumptions"]
OUTSIDE = META["C04"]["outside"]
REQUIRED_LABELS = META["C04"]["required"]


def bounds(tier):
    return META["bounds"](tier)


def cases(tier):
    return gendrive.gen_cases(tier)


def run_case(case, g, tier, res):
    gendrive.run_gen_case(case, g, tier, res, PROPERTY, {PROPERTY}, budget_s=META["budget"](tier))


def replay(rp, gb):
    return gendrive.replay_gen(rp, gb)
